#!/usr/bin/env python3
"""Regenerates /verif/MANIFEST.json. Edit PROPS / IMPLEMENTED here, never the JSON by hand."""
import json
PROPS = {
 "C01": ("exploration", "Per generated grammar: an LR(1) certificate (closure / transition / reduction conditions checked on every state, item and cell of the live automaton) gives completeness for all inputs of that grammar; soundness and completeness are additionally observed per input (valid derivation of exactly the input; accepted <=> Earley member), including every string up to length 4/5 for small alphabets. Grammars are sampled, never 'all grammars'.",
         "Trusted: harness FIRST/nullable, Earley recogniser, derivation validator. Completeness only asserted for conflict-free, precedence-free grammars.",
         "runtime monitoring: invariant check (LR(1) certificate) on the live automaton + reference-model monitor (Earley) over generated inputs", "DESIGN.md §4 C01"),
 "C02": ("exploration", "Differential against an independent canonical LR(1) construction: every generated LR(1) grammar (8 isomorphic permutations each, biased to LR(1)-not-LALR(1) shapes, many same-core states, and seeds on which Pager re-processes and garbage-collects states) must be conflict-free in the minimised table, use no more states, and parse sampled inputs to the same tree / same first-error lexeme as the canonical parser. lrtable hook counters show how often merges, re-queues and gc actually happened.",
         "Trusted: the harness's canonical LR(1) construction and parser (refs.rs).",
         "runtime monitoring: differential reference-model monitor (canonical LR(1) automaton and parser) + hook counters for Pager merge/re-queue/gc events", "DESIGN.md §4 C02"),
 "C03": ("exploration", "Every (state, token) cell of every generated table is re-derived from the closed item sets, the graph edges and the abstract grammar's precedence declarations and compared with action(); the reported conflict lists are compared with the expected default-rule resolutions; CTParserBuilder::build must succeed iff the counts equal %expect/%expect-rr. Exhaustive over cells per generated grammar; grammars are sampled.",
         "Trusted: the harness's precedence model (levels = declaration order, production precedence = %prec else last token) and candidate extraction from item sets. Order of applying the two default rules in shift+multi-reduce cells is accepted either way.",
         "runtime monitoring: reference-model monitor re-deriving every table cell and the conflict lists; real compile-time builds for the %expect gate", "DESIGN.md §4 C03"),
 "C04": ("exploration", "For every rejected input of every generated conflict-free grammar the reported error lexeme is compared with the first non-viable lexeme computed by an Earley viable-prefix oracle, with recovery off (exactly one error, no value) and with CPCT+ on (first error). Grammars and inputs are sampled; merged-state-heavy grammars included on purpose.",
         "Trusted: harness Earley recogniser (viable prefixes on the abstract grammar); synthetic lexer span -> lexeme index bijection.",
         "runtime monitoring: reference-model monitor (Earley viable-prefix oracle) over generated erroneous inputs", "DESIGN.md §4 C04"),
 "C05": ("exploration", "Reference-model monitor: every recovering parse is replayed on an independent LR driver; every reported repair sequence of every error is replayed from the error configuration and must then parse >= 3 further lexemes or accept; the first sequence is applied (inserted lexemes zero-length, faulty, at the next real lexeme) and the returned tree must equal the model's tree node for node; every later error must sit where the model errs. Sampled grammars x inputs x cost tables.",
         "Trusted: the independent LR driver (reads the table only through action()/goto()), the synthetic lexer. Recovery runs under a logical step budget (lrpar hook). One known finding (conflict-resolved tables) matched by a mechanism predicate.",
         "runtime monitoring: replay reference model over recorded parse results (errors, repair sequences, tree)", "DESIGN.md §4 C05"),
 "C06": ("exploration", "Differential against an exhaustive reference search over explicit Insert/Delete/Shift sequences from the real error configuration (bounded: <= 6 tokens, <= 14 lexemes, reported cost <= 6 unit edits, 300k nodes): equal cost, no cheaper valid repair, reported set == minimum-cost best-reach set, plus the ordering clauses checked directly on the reported list. Beyond the bounds or when the step budget ran out the error is counted inconclusive.",
         "Trusted: the reference search and plain-replay validity (rec.rs). Known finding on conflict-resolved tables matched by mechanism predicate.",
         "runtime monitoring: differential reference-model monitor (exhaustive bounded repair search) + direct checks on the reported list", "DESIGN.md §4 C06"),
 "C07": ("exploration", "Offline checker over the recorded result of each recovering parse (error positions strictly increasing and >= 3 lexemes apart, count <= n+1, repairs present on all but the last error, value <=> all repaired, silent acceptance => sentence) with the production 500 ms budget and with logical step budgets {50, 500, 5000}; 'always returns' through the per-case watchdog with isolated confirmation; panics are violations.",
         "Trusted: the checker; Earley for silent acceptance. Grammars with derivation cycles and tables with endless epsilon-reduction loops are excluded (counted). Known finding on conflict-resolved tables matched by mechanism predicate.",
         "runtime monitoring: trace checker over recorded parse outcomes under wall-clock and logical budgets; watchdog for termination", "DESIGN.md §4 C07"),
 "C08": ("exploration", "The action closures are the probes: every invocation is logged (production, rule, span, arguments, parameter) and the log is checked offline against the production table and the final tree: once per reduction, post-order, argument kinds and order, span = extent of the derived lexemes (zero-length if none), parameter passed through, action-built tree == generic parse-tree mode; with recovery off and across CPCT+ repair replay. Sampled grammars (nullable-heavy) x inputs over texts with gaps.",
         "Trusted: the log checker. Inserted zero-length lexemes at the edge of a reduction: both readings of the span are accepted.",
         "runtime monitoring: event-log checker over probe actions (offline trace specification)", "DESIGN.md §4 C08"),
 "C09": ("exploration", "Differential against a reference lexer (per-rule independently compiled regexes from the generator's AST; longest non-empty match, earliest rule on ties; plain start-state stack) on generated specifications x inputs built from the rules' own regexes plus noise; generic invariants on the lexeme stream; set_rule_ids(_spanned) reports vs independently computed set differences, and ids after syncing.",
         "Trusted: the regex crate; the reference lexer (lx.rs).",
         "runtime monitoring: differential reference-model monitor (reference lexer) over generated specs and inputs", "DESIGN.md §4 C09"),
 "C11": ("exploration", "Print-then-parse round trip: each abstract specification is rendered several ways (header/builder flags, CRLF, comments, gratuitous lex escapes, spellings) and the built definition's rules, start states, spans, behaviour (vs the reference lexer compiled from the abstract regexes, incl. size/nest limits) and error spans of broken renderings are compared with the abstract specification.",
         "Trusted: renderer + reference lexer; StartState's Debug output for kind/id.",
         "runtime monitoring: round-trip law monitor (abstract spec -> text -> definition) with behavioural probes", "DESIGN.md §4 C11"),
 "C10": ("exploration", "Print-then-parse round trip: each decorated abstract grammar is rendered in many layouts and syntaxes and every public accessor of the built YaccGrammar (plus spans) is compared with the abstract grammar; sampled grammars x renderings.",
         "Trusted: the renderer's record of what it printed where. Token numbering order, action spans and the added start production's span are not asserted.",
         "runtime monitoring: round-trip law monitor (abstract grammar -> text -> YaccGrammar accessors)", "DESIGN.md §4 C10"),
 "C12": ("exploration", "Hostile-input workload: for each seed specification (generated .y/.l in all syntaxes and every specification found under /repo) every truncation (exhaustive per seed) plus random structural mutants and character injections go through every specification parser entry point; monitors: no panic, returns (watchdog with isolated confirmation and input trace), value or non-empty errors, all error/warning spans inside the text on char boundaries.",
         "Trusted: the span validity predicate; the watchdog protocol for termination.",
         "runtime monitoring: robustness workload (exhaustive truncation + mutation) with assertion monitors and a termination watchdog", "DESIGN.md §4 C12"),
 "C14": ("exploration", "For every generated grammar x {u8,u16,u32} x {fixed, variable} encoding the grammar and table are serialised with the same wincode calls the generated parser uses, reconstituted with lrpar::ctbuilder::_reconstitute, and a canonical dump of every public query plus the parse results of a batch of inputs is compared between the originals and the reconstituted objects.",
         "Trusted: the dump covers the public API as of this tree (dump.rs); parse comparison under recovery is up to the first error's repair set.",
         "runtime monitoring: round-trip observational-equivalence monitor over all public queries", "DESIGN.md §4 C14"),
 "C16": ("exploration", "Every state x token x rule of every generated table: state_actions/state_shifts/core_reduces/reduce_only_state/goto vs action() and the graph's edges, reachability of all states, and every closed state vs a reference LR(1) closure of its core. Exhaustive over cells per generated grammar; grammars are sampled.",
         "Trusted: harness FIRST/nullable/closure.",
         "runtime monitoring: invariant checks on the live state graph and table at the quiescent point after construction", "DESIGN.md §4 C16"),
 "C17": ("exploration", "FIRST / epsilon / FOLLOW / has_path compared set-for-set, and min/max sentence costs value-for-value under three token-cost functions, with independently written reference analyses on every generated grammar (including unproductive, unreachable and cyclic ones); generated minimal sentences checked derivable (Earley) and minimal. Termination is observed through a per-case watchdog and, for the one query family known not to return on cyclic grammars, through sampled subprocess probes with a timeout.",
         "Trusted: harness reference analyses (relation closures, Knuth-style min cost, longest path) and Earley recogniser. Three known findings are matched by narrow predicates (see known_findings.json).",
         "runtime monitoring: reference-model monitors over generated grammars; watchdog + subprocess probes for termination", "DESIGN.md §4 C17"),
 "C19": ("exploration", "Held on every execution observed: the complete space of short texts (all strings up to length 4/6 over a hostile 6-symbol alphabet, every chunking, offset and span) plus random longer texts, each compared with a naive line model. Exhaustive on the bounded space, sampled beyond it.",
         "Trusted: the 40-line naive line model; two documented ambiguities (CR LF column, which line a span ending at a line start extends to) are accepted both ways.",
         "runtime monitoring: reference-model monitor (naive line model) over exhaustive small texts + random texts", "DESIGN.md §4 C19"),
}
NOT_YET = "check not built yet (work in progress; see DESIGN.md §4)"
def main():
    checks = []
    for pid in sorted(PROPS):
        level, text, note, tech, ref = PROPS[pid]
        checks.append({"property_id": pid, "quick_cmd": f"./check {pid} quick", "thorough_cmd": f"./check {pid} thorough",
                       "evidence_file": f"/verif/evidence/{pid}.json", "replay_cmd_template": f"./check {pid} --replay {{path}}",
                       "engine": "vcheck", "level_claimed": {"category": level, "text": text, "design_ref": ref},
                       "level_note": note, "technique": tech})
    hooks = [l.split()[0] for l in open('/verif/hook_commits.txt') if l.strip()]
    m = {"version": 1, "setup_cmd": "./setup.sh",
         "hooks": {"guard": "grmtools_verif",
                   "enable": "rustc --cfg grmtools_verif, set in /verif/harness/.cargo/config.toml [build] rustflags; the harness has path dependencies on /repo/{cfgrammar,lrtable,lrpar,lrlex} so every ./check rebuilds them from the working tree",
                   "baseline_off_cmd": "cd /repo && cargo test --workspace --no-fail-fast --offline",
                   "source_commits": hooks, "add_only": True},
         "engines": [{"name": "vcheck", "path": "/verif/harness/vcheck", "serves_properties": sorted(PROPS),
                      "kind_free_text": "Rust harness: sharded worker processes run generated workloads against the real crates; reference-model monitors / invariant checkers decide each case; the driver aggregates the event log, applies watchdogs, writes evidence"}],
         "checks": checks,
         "notes": "Exit codes: 0 held (KNOWN-FINDING lines possible), 1 VIOLATION, 2 broken machinery/vacuous run. VERIF_SEED seeds all random choices.",
         "not_applicable": [{"property_id": f"C{i:02d}", "reason": NOT_YET} for i in range(1, 21) if f"C{i:02d}" not in PROPS]}
    json.dump(m, open('/verif/MANIFEST.json', 'w'), indent=1)
main()

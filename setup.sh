#!/bin/bash
# MANIFEST.setup_cmd: offline build of the harness against /repo's working tree.
set -e
cd /verif/harness
export CARGO_NET_OFFLINE=true
mkdir -p /verif/work /verif/evidence /verif/replays
cargo build --release --offline

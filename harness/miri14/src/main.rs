//! Miri leg of C14/C15: the serialise -> reconstitute round trip of grammar and state table
//! (the only place where the code under test hands its data to `unsafe` dependency code: wincode's
//! zero-copy readers/writers, vob, sparsevec/packedvec), and a first-use race on a shared
//! OnceLock-initialised parser table from several threads, under the undefined-behaviour and
//! data-race interpreter. Prints one "OK <what>" line per step; any UB makes Miri abort non-zero.
use cfgrammar::yacc::{YaccGrammar, YaccKind, YaccOriginalActionKind};
use lrlex::{DefaultLexeme, DefaultLexerTypes, LRNonStreamingLexer};
use lrpar::ctbuilder::{_reconstitute, wincode};
use lrpar::{Lexeme, RTParserBuilder, RecoveryKind};
use lrtable::{from_yacc, Minimiser};
use std::str::FromStr;

const GRAMMARS: [&str; 3] = [
    "%start E\n%left '+'\n%left '*'\n%nonassoc '<'\n%avoid_insert 'n'\n%epp n \"number\"\n%%\nE: E '+' E | E '*' E | E '<' E | '(' E ')' | 'n' ;\n",
    "%start S\n%expect 1\n%%\nS: 'i' S | 'i' S 'e' S | 'x' ;\n",
    "%start S\n%%\nS: A B | ; A: 'a' A | ; B: 'b' | B 'c' ;\n",
];

fn dump(grm: &YaccGrammar<u32>, st: &lrtable::StateTable<u32>, nstates: usize) -> String {
    let mut o = String::new();
    for p in grm.iter_pidxs() {
        o.push_str(&format!("{} -> {:?} prec {:?}\n", grm.rule_name_str(grm.prod_to_rule(p)), grm.prod(p), grm.prod_precedence(p)));
    }
    for t in grm.iter_tidxs() {
        o.push_str(&format!("{:?} {:?} {:?} {}\n", grm.token_name(t), grm.token_precedence(t), grm.token_epp(t), grm.avoid_insert(t)));
    }
    for s in 0..nstates {
        let s = lrtable::StIdx(s as u32);
        for t in grm.iter_tidxs() {
            o.push_str(&format!("{:?} ", st.action(s, t)));
        }
        for r in grm.iter_rules() {
            o.push_str(&format!("{:?} ", st.goto(s, r)));
        }
        o.push_str(&format!("{:?} {}\n", st.core_reduces(s).collect::<Vec<_>>(), st.reduce_only_state(s)));
    }
    o.push_str(&format!("{:?}", st.conflicts().map(|c| (c.sr_len(), c.rr_len()))));
    o
}

fn parse(grm: &YaccGrammar<u32>, st: &lrtable::StateTable<u32>, names: &[&str], rec: RecoveryKind) -> String {
    let src: String = names.join(" ");
    let mut off = 0;
    let mut lexemes = vec![];
    for n in names {
        let t = grm.token_idx(n).expect("token");
        lexemes.push(Ok(DefaultLexeme::new(u32::from(t), off, n.len())));
        off += n.len() + 1;
    }
    let lexer: LRNonStreamingLexer<DefaultLexerTypes<u32>> = LRNonStreamingLexer::new(&src, lexemes, cfgrammar::NewlineCache::from_str(&src).unwrap());
    let pb = RTParserBuilder::new(grm, st).recoverer(rec);
    let (t, errs) = pb.parse_generictree(&lexer);
    // With recovery on only the errors' positions are compared: which of several equally ranked repairs
    // is applied is unspecified, and under the interpreter the 500 ms wall-clock recovery budget runs out
    // at different points in different runs (so even WHETHER repairs are found is timing dependent).
    if matches!(rec, RecoveryKind::CPCTPlus) {
        let first = errs.first().map(|e| e.pp(&lexer, &|t| grm.token_epp(t)).split('.').next().unwrap_or("").to_string());
        return format!("first error: {first:?}");
    }
    format!("{:?} / {} errors", t.map(|n| n.pp(grm, &src)), errs.len())
}

fn main() {
    let inputs: [&[&str]; 3] = [&["n", "+", "n", "*", "(", "n", ")"], &["i", "i", "x", "e", "x"], &["a", "a", "b", "c"]];
    let bad: [&[&str]; 3] = [&["n", "+", "*", "n"], &["i", "e", "x"], &["b", "a"]];
    for (gi, src) in GRAMMARS.iter().enumerate() {
        let grm = YaccGrammar::<u32>::new(YaccKind::Original(YaccOriginalActionKind::GenericParseTree), src).expect("grammar");
        let (sg, st) = from_yacc(&grm, Minimiser::Pager).expect("table");
        let n = usize::from(sg.all_states_len());
        let want = dump(&grm, &st, n);
        for fixed in [true, false] {
            let (gb, sb, pd) = if fixed {
                let cfg = wincode::config::Configuration::default().with_fixint_encoding();
                let gb = wincode::config::serialize(&grm, cfg).expect("ser grm");
                let sb = wincode::config::serialize(&st, cfg).expect("ser table");
                let pd = _reconstitute::<_, u32>(&gb, &sb, cfg);
                (gb, sb, pd)
            } else {
                let cfg = wincode::config::Configuration::default().with_varint_encoding();
                let gb = wincode::config::serialize(&grm, cfg).expect("ser grm");
                let sb = wincode::config::serialize(&st, cfg).expect("ser table");
                let pd = _reconstitute::<_, u32>(&gb, &sb, cfg);
                (gb, sb, pd)
            };
            let got = dump(pd.grm(), pd.stable(), n);
            assert_eq!(want, got, "grammar {gi} fixed={fixed}: queries differ after the round trip");
            assert_eq!(parse(&grm, &st, inputs[gi], RecoveryKind::None), parse(pd.grm(), pd.stable(), inputs[gi], RecoveryKind::None));
            assert_eq!(parse(&grm, &st, bad[gi], RecoveryKind::CPCTPlus), parse(pd.grm(), pd.stable(), bad[gi], RecoveryKind::CPCTPlus));
            println!("OK roundtrip grammar={gi} fixed={fixed} bytes={} states={n}", gb.len() + sb.len());
        }
    }
    // first use of one shared, lazily reconstituted table from several threads (what a generated
    // parser's __lrpar_parser_data does), under Miri's data-race detector
    {
        let grm = YaccGrammar::<u32>::new(YaccKind::Original(YaccOriginalActionKind::GenericParseTree), GRAMMARS[0]).expect("grammar");
        let (_, st) = from_yacc(&grm, Minimiser::Pager).expect("table");
        let cfg = wincode::config::Configuration::default().with_varint_encoding();
        let gb = std::sync::Arc::new(wincode::config::serialize(&grm, cfg).unwrap());
        let sb = std::sync::Arc::new(wincode::config::serialize(&st, cfg).unwrap());
        static DATA: std::sync::OnceLock<lrpar::ParserData<u32>> = std::sync::OnceLock::new();
        let hs: Vec<_> = (0..3)
            .map(|k| {
                let (gb, sb) = (gb.clone(), sb.clone());
                std::thread::spawn(move || {
                    let pd = DATA.get_or_init(|| _reconstitute::<_, u32>(&gb, &sb, wincode::config::Configuration::default().with_varint_encoding()));
                    parse(pd.grm(), pd.stable(), if k % 2 == 0 { &["n", "+", "n"] } else { &["n", "*", "+", "n"] }, RecoveryKind::CPCTPlus)
                })
            })
            .collect();
        let outs: Vec<String> = hs.into_iter().map(|h| h.join().unwrap()).collect();
        assert_eq!(outs[0], outs[2]);
        println!("OK threads first-use results={}", outs.len());
    }
}

//! C16 — state graph and table queries agree with each other.
//! Oracle over every state x token x rule of every generated table.

use crate::ag::*;
use crate::c01::{ag_rhs, ctx_to_set};
use crate::frame::*;
use crate::refs::*;
use crate::rng::{hash_str, Rng};
use cfgrammar::{PIdx, SIdx, Symbol, TIdx};
use lrtable::{Action, StIdx, StateGraph, StateTable};
use serde_json::json;
use std::collections::{BTreeMap, BTreeSet, VecDeque};

pub struct C16;

/// Reference LR(1) closure of a core item set, in AG symbol space.
/// items: (pidx, dot) -> lookahead set
pub fn ref_closure(ag: &AG, b: &Built, core: &BTreeMap<(PIdx<u32>, usize), BTreeSet<usize>>) -> BTreeMap<(PIdx<u32>, usize), BTreeSet<usize>> {
    let nul = nullable(ag);
    let firsts = first_sets(ag);
    let mut set = core.clone();
    loop {
        let mut changed = false;
        let keys: Vec<(PIdx<u32>, usize)> = set.keys().cloned().collect();
        for (p, d) in keys {
            let Some(rhs) = ag_rhs(ag, b, p) else { continue };
            if d < rhs.len() {
                if let ASym::R(br) = rhs[d] {
                    let la = set[&(p, d)].clone();
                    let f = first_of_seq(ag, &firsts, &nul, &rhs[d + 1..], &la);
                    for bp in &b.prod[br] {
                        if !set.contains_key(&(*bp, 0)) {
                            set.insert((*bp, 0), BTreeSet::new());
                            changed = true;
                        }
                        let e = set.get_mut(&(*bp, 0)).unwrap();
                        if !f.is_subset(e) {
                            e.extend(f.iter().cloned());
                            changed = true;
                        }
                    }
                }
            }
        }
        if !changed {
            return set;
        }
    }
}

pub fn itemset_to_map<S: std::hash::BuildHasher>(b: &Built, is: &std::collections::HashMap<(PIdx<u32>, SIdx<u32>), vob::Vob, S>) -> BTreeMap<(PIdx<u32>, usize), BTreeSet<usize>> {
    is.iter().map(|((p, d), c)| ((*p, usize::from(*d)), ctx_to_set(b, c))).collect()
}

pub fn check_tables(ag: &AG, b: &Built, sg: &StateGraph<u32>, st: &StateTable<u32>, out: &mut CaseOut) {
    let grm = &b.grm;
    let detail = || json!({"grammar": b.src});
    let nstates = usize::from(sg.all_states_len());
    // reachability
    let mut seen = vec![false; nstates];
    let mut q = VecDeque::new();
    seen[usize::from(sg.start_state())] = true;
    q.push_back(sg.start_state());
    while let Some(s) = q.pop_front() {
        for (_, t) in sg.edges(s) {
            if usize::from(*t) >= nstates {
                out.violate("edge-to-nonexistent-state", &[], format!("state {} has an edge to state {} but there are only {nstates} states", usize::from(s), usize::from(*t)), detail());
                return;
            }
            if !seen[usize::from(*t)] {
                seen[usize::from(*t)] = true;
                q.push_back(*t);
            }
        }
    }
    if let Some(u) = seen.iter().position(|x| !*x) {
        out.violate("unreachable-state", &[], format!("state {u} is not reachable from the start state"), detail());
    }
    for si in 0..nstates {
        let s = StIdx(si as u32);
        out.count("states", 1);
        let mut act_set = BTreeSet::new();
        let mut shift_set = BTreeSet::new();
        let mut reduces: BTreeSet<PIdx<u32>> = BTreeSet::new();
        let mut has_accept = false;
        for t in grm.iter_tidxs() {
            out.evals += 1;
            out.count("cells", 1);
            match st.action(s, t) {
                Action::Error => {
                    // was something removed here? (token edge or complete item present)
                    let edge = sg.edge(s, Symbol::Token(t)).is_some();
                    let red = sg.closed_state(s).items.iter().any(|((p, d), c)| *d == grm.prod_len(*p) && c.get(usize::from(t)) == Some(true));
                    if edge || red {
                        out.count("cells_removed_by_nonassoc", 1);
                    }
                }
                Action::Shift(n) => {
                    act_set.insert(t);
                    shift_set.insert(t);
                    if sg.edge(s, Symbol::Token(t)) != Some(n) {
                        out.violate("shift-target-mismatch", &[], format!("state {si}: shift target on token {} is {} but the graph edge is {:?}", usize::from(t), usize::from(n), sg.edge(s, Symbol::Token(t)).map(usize::from)), detail());
                    }
                    let red = sg.closed_state(s).items.iter().any(|((p, d), c)| *d == grm.prod_len(*p) && c.get(usize::from(t)) == Some(true));
                    if red {
                        out.count("cells_resolved", 1);
                    }
                }
                Action::Reduce(p) => {
                    act_set.insert(t);
                    reduces.insert(p);
                    let ncand = sg.closed_state(s).items.iter().filter(|((p, d), c)| *d == grm.prod_len(*p) && c.get(usize::from(t)) == Some(true)).count();
                    if sg.edge(s, Symbol::Token(t)).is_some() || ncand > 1 {
                        out.count("cells_resolved", 1);
                    }
                }
                Action::Accept => {
                    act_set.insert(t);
                    has_accept = true;
                }
            }
        }
        let sa: BTreeSet<TIdx<u32>> = st.state_actions(s).collect();
        if sa != act_set {
            let extra: Vec<usize> = sa.difference(&act_set).map(|t| usize::from(*t)).collect();
            let missing: Vec<usize> = act_set.difference(&sa).map(|t| usize::from(*t)).collect();
            // predicate for the known defect: every extra token is a %nonassoc-removed cell of this state
            let all_nonassoc = missing.is_empty()
                && !extra.is_empty()
                && extra.iter().all(|t| {
                    let t = TIdx(*t as u32);
                    st.action(s, t) == Action::Error && sg.edge(s, Symbol::Token(t)).is_some() && matches!(grm.token_precedence(t), Some(p) if p.kind == cfgrammar::yacc::AssocKind::Nonassoc)
                });
            let tags: Vec<&str> = if all_nonassoc { vec!["extra_tokens_are_nonassoc_removed_cells"] } else { vec![] };
            out.violate("state-actions-mismatch", &tags, format!("state {si}: state_actions lists extra tokens {extra:?} / misses {missing:?} relative to the non-error actions"), detail());
        }
        let ss: BTreeSet<TIdx<u32>> = st.state_shifts(s).collect();
        if ss != shift_set {
            out.violate("state-shifts-mismatch", &[], format!("state {si}: state_shifts = {:?} but shift actions are on {:?}", ss.iter().map(|t| usize::from(*t)).collect::<Vec<_>>(), shift_set.iter().map(|t| usize::from(*t)).collect::<Vec<_>>()), detail());
        }
        // gotos
        for r in grm.iter_rules() {
            out.evals += 1;
            if st.goto(s, r) != sg.edge(s, Symbol::Rule(r)) {
                out.violate("goto-mismatch", &[], format!("state {si}: goto on rule {} is {:?} but the graph edge is {:?}", usize::from(r), st.goto(s, r).map(usize::from), sg.edge(s, Symbol::Rule(r)).map(usize::from)), detail());
            }
        }
        // core reduces
        let cr: Vec<PIdx<u32>> = st.core_reduces(s).collect();
        let want_keys: BTreeSet<(u32, usize)> = reduces.iter().map(|p| (u32::from(grm.prod_to_rule(*p)), grm.prod(*p).len())).collect();
        let got_keys: Vec<(u32, usize)> = cr.iter().map(|p| (u32::from(grm.prod_to_rule(*p)), grm.prod(*p).len())).collect();
        let got_set: BTreeSet<(u32, usize)> = got_keys.iter().cloned().collect();
        if got_set != want_keys || got_keys.len() != got_set.len() || cr.iter().any(|p| !reduces.contains(p)) {
            out.violate("core-reduces-mismatch", &[], format!("state {si}: core_reduces = {:?}, reductions in the state's cells = {:?}", cr.iter().map(|p| usize::from(*p)).collect::<Vec<_>>(), reduces.iter().map(|p| usize::from(*p)).collect::<Vec<_>>()), detail());
        }
        // reduce-only
        let ro = st.reduce_only_state(s);
        if !act_set.is_empty() {
            let want = shift_set.is_empty() && !has_accept && want_keys.len() == 1;
            if ro != want {
                out.violate("reduce-only-mismatch", &[], format!("state {si}: reduce_only_state = {ro}, expected {want}"), detail());
            }
        }
        // closure equality
        let core = itemset_to_map(b, &sg.core_state(s).items);
        let closed = itemset_to_map(b, &sg.closed_state(s).items);
        let want = ref_closure(ag, b, &core);
        out.count("closures_recomputed", 1);
        if want != closed {
            out.violate("closure-mismatch", &[], format!("state {si}: closed state differs from the LR(1) closure of its core state (items {} vs {})", closed.len(), want.len()), detail());
        }
    }
}

impl Check for C16 {
    fn id(&self) -> &'static str {
        "C16"
    }
    fn ncases(&self, tier: Tier) -> u64 {
        tier.sz(60000, 1000000)
    }
    fn rule(&self) -> &'static str {
        "one generated grammar per case (all families incl. precedence-resolved and %nonassoc grammars); for every state x token: state_actions/state_shifts vs action(); every shift/goto target vs edge(); core_reduces and reduce_only_state vs the state's Reduce cells; all states reachable; every closed state vs a reference LR(1) closure of its core. Non-trivial = table has at least one precedence/default-resolved or %nonassoc-removed cell; distinct by normalised grammar."
    }
    fn assumptions(&self) -> Vec<&'static str> {
        vec!["reference FIRST/nullable/closure are the harness's own", "a state with no action at all is accepted as reduce-only or not"]
    }
    fn floor(&self, tier: Tier) -> u64 {
        tier.sz(4000, 50000)
    }
    fn required_counters(&self, _t: Tier) -> Vec<&'static str> {
        vec!["cells", "cells_resolved", "cells_removed_by_nonassoc", "closures_recomputed"]
    }
    fn run_case(&self, seed: u64, idx: u64, tier: Tier) -> CaseOut {
        // thorough tier: every third case draws its random grammars from the medium-sized family
        set_size_boost(tier == Tier::Thorough && idx % 3 == 1);
        let mut out = CaseOut::new();
        let mut rng = Rng::derive(seed, "C16", idx, 0);
        let ag = if rng.chance(2, 5) { let mut g = gen_expr(&mut rng); g.compact(); g } else { gen_mixed(&mut rng, true) };
        let b = match build_grm(&ag) {
            Ok(b) => b,
            Err(e) => {
                out.violate("grammar-build-failed", &["harness"], e, ag.to_json());
                return out;
            }
        };
        let (sg, st) = match guarded(|| b.table()) {
            Ok(Ok(x)) => x,
            Ok(Err(_)) => {
                out.count("from_yacc_err", 1);
                return out;
            }
            Err(p) => {
                out.violate("panic", &["from_yacc"], format!("from_yacc panicked: {p}"), ag.to_json());
                return out;
            }
        };
        let before = out.counters.get("cells_resolved").copied().unwrap_or(0) + out.counters.get("cells_removed_by_nonassoc").copied().unwrap_or(0);
        check_tables(&ag, &b, &sg, &st, &mut out);
        let after = out.counters.get("cells_resolved").copied().unwrap_or(0) + out.counters.get("cells_removed_by_nonassoc").copied().unwrap_or(0);
        if after > before {
            out.nontrivial(hash_str(&ag.normal_form()));
        }
        if idx % 211 == 0 {
            out.sample = Some(json!({"grammar": b.src, "family": ag.family, "states": usize::from(sg.all_states_len()), "resolved_or_removed_cells": after - before}));
        }
        out
    }
}

//! C18 — an incremental compile-time build always ends in the state a clean build would.
//! History monitor: every build is a subprocess (like cargo's build scripts); after each build
//! a clean-build oracle (same sources, settings and grammar path, empty output directory) runs in
//! another subprocess and the two outcomes are compared.

use crate::ag::*;
use crate::ctgen::*;
use crate::frame::*;
use crate::rng::{hash_str, Rng};
use crate::yrender::*;
use lrlex::{CTLexerBuilder, DefaultLexerTypes};
use lrpar::{CTParserBuilder, RecoveryKind};
use serde_json::{json, Value};

pub struct C18;

#[derive(Clone, Debug, PartialEq)]
struct Cfg18 {
    kind: AKind,
    recoverer: Option<bool>,
    fixed_ints: Option<bool>,
    edition: u8,
    /// 0 private, 1 pub, 2 pub(super), 3 pub(self), 4 pub(crate), 5 pub(in crate)
    vis: u8,
    mod_name: Option<String>,
    error_on_conflicts: bool,
    warnings_are_errors: bool,
    lex_mod_name: Option<String>,
    lex_case_insensitive: Option<bool>,
    /// lexer builder: tokens the grammar does not know are errors (allow_missing_tokens_in_parser(false) + warnings_are_errors(true))
    lex_strict: bool,
}

fn kind_str(k: AKind) -> &'static str {
    match k {
        AKind::OriginalNoAction => "noaction",
        AKind::OriginalGeneric => "generic",
        AKind::OriginalUser => "user",
        AKind::Grmtools => "grmtools",
        AKind::Eco => "eco",
    }
}
fn kind_from(s: &str) -> AKind {
    match s {
        "noaction" => AKind::OriginalNoAction,
        "generic" => AKind::OriginalGeneric,
        "user" => AKind::OriginalUser,
        "grmtools" => AKind::Grmtools,
        _ => AKind::Eco,
    }
}

impl Cfg18 {
    fn to_json(&self) -> Value {
        json!({"kind": kind_str(self.kind), "recoverer": self.recoverer, "fixed_ints": self.fixed_ints, "edition": self.edition, "vis": self.vis, "mod_name": self.mod_name,
               "error_on_conflicts": self.error_on_conflicts, "warnings_are_errors": self.warnings_are_errors, "lex_mod_name": self.lex_mod_name, "lex_case_insensitive": self.lex_case_insensitive, "lex_strict": self.lex_strict})
    }
    fn from_json(v: &Value) -> Cfg18 {
        Cfg18 {
            kind: kind_from(v["kind"].as_str().unwrap_or("generic")),
            recoverer: v["recoverer"].as_bool(),
            fixed_ints: v["fixed_ints"].as_bool(),
            edition: v["edition"].as_u64().unwrap_or(2) as u8,
            vis: v["vis"].as_u64().unwrap_or(0) as u8,
            mod_name: v["mod_name"].as_str().map(String::from),
            error_on_conflicts: v["error_on_conflicts"].as_bool().unwrap_or(true),
            warnings_are_errors: v["warnings_are_errors"].as_bool().unwrap_or(false),
            lex_mod_name: v["lex_mod_name"].as_str().map(String::from),
            lex_case_insensitive: v["lex_case_insensitive"].as_bool(),
            lex_strict: v["lex_strict"].as_bool().unwrap_or(false),
        }
    }
}

/// One build step, run in its own process: `vcheck ctstep18 <grammar> <lexer> <outdir> <cfg-json>`.
pub fn ctstep_main(gp: &str, lp: &str, outdir: &str, cfg_json: &str) {
    let cfg = Cfg18::from_json(&serde_json::from_str(cfg_json).expect("cfg json"));
    std::fs::create_dir_all(outdir).ok();
    let po = format!("{outdir}/g.y.rs");
    let lo = format!("{outdir}/g.l.rs");
    let mn = cfg.mod_name.clone();
    let r = std::panic::catch_unwind(|| {
        let mut ctp = CTParserBuilder::<DefaultLexerTypes<u32>>::new()
            .yacckind(cfg.kind.yacckind())
            .grammar_path(gp)
            .output_path(&po)
            .error_on_conflicts(cfg.error_on_conflicts)
            .warnings_are_errors(cfg.warnings_are_errors)
            .show_warnings(false)
            .rust_edition(match cfg.edition {
                0 => lrpar::RustEdition::Rust2015,
                1 => lrpar::RustEdition::Rust2018,
                _ => lrpar::RustEdition::Rust2021,
            })
            .visibility(match cfg.vis {
                0 => lrpar::Visibility::Private,
                1 => lrpar::Visibility::Public,
                2 => lrpar::Visibility::PublicSuper,
                3 => lrpar::Visibility::PublicSelf,
                4 => lrpar::Visibility::PublicCrate,
                _ => lrpar::Visibility::PublicIn("crate".to_string()),
            });
        if let Some(r) = cfg.recoverer {
            ctp = ctp.recoverer(if r { RecoveryKind::CPCTPlus } else { RecoveryKind::None });
        }
        if let Some(f) = cfg.fixed_ints {
            ctp = ctp.serialisation_format(if f { lrpar::SerialisationFormat::FixedSizeInteger } else { lrpar::SerialisationFormat::VariableSizedInteger });
        }
        if let Some(m) = &mn {
            ctp = ctp.mod_name(m);
        }
        ctp.build().map(|p| (p.regenerated(), p.token_map().clone())).map_err(|e| format!("{e}"))
    });
    let ids = match r {
        Err(_) => {
            println!("PARSER panic");
            None
        }
        Ok(Err(e)) => {
            println!("PARSER err {}", e.lines().find(|l| !l.trim().is_empty()).unwrap_or("").chars().take(120).collect::<String>());
            None
        }
        Ok(Ok((regen, ids))) => {
            println!("PARSER ok regenerated={regen}");
            Some(ids)
        }
    };
    let Some(ids) = ids else {
        println!("LEXER notrun");
        return;
    };
    let lmn = cfg.lex_mod_name.clone();
    let r = std::panic::catch_unwind(|| {
        let mut lb = CTLexerBuilder::<DefaultLexerTypes<u32>>::new()
            .rule_ids_map(ids)
            .lexer_path(lp)
            .output_path(&lo)
            .allow_missing_terms_in_lexer(true)
            .allow_missing_tokens_in_parser(true)
            .rust_edition(match cfg.edition {
                0 => lrlex::RustEdition::Rust2015,
                1 => lrlex::RustEdition::Rust2018,
                _ => lrlex::RustEdition::Rust2021,
            })
            .visibility(match cfg.vis {
                0 => lrlex::Visibility::Private,
                1 => lrlex::Visibility::Public,
                2 => lrlex::Visibility::PublicSuper,
                3 => lrlex::Visibility::PublicSelf,
                4 => lrlex::Visibility::PublicCrate,
                _ => lrlex::Visibility::PublicIn("crate".to_string()),
            });
        if let Some(m) = &lmn {
            lb = lb.mod_name(m);
        }
        if let Some(c) = cfg.lex_case_insensitive {
            lb = lb.case_insensitive(c);
        }
        if cfg.lex_strict {
            lb = lb.allow_missing_tokens_in_parser(false).warnings_are_errors(true);
        }
        lb.build().map(|_| ()).map_err(|e| format!("{e}"))
    });
    match r {
        Err(_) => println!("LEXER panic"),
        Ok(Err(e)) => println!("LEXER err {}", e.lines().find(|l| !l.trim().is_empty()).unwrap_or("").chars().take(120).collect::<String>()),
        Ok(Ok(())) => println!("LEXER ok"),
    }
}

struct StepOut {
    parser_ok: bool,
    regenerated: Option<bool>,
    lexer_ok: bool,
    raw: String,
}

fn run_step(gp: &str, lp: &str, outdir: &str, cfg: &Cfg18) -> Result<StepOut, String> {
    let exe = std::env::current_exe().map_err(|e| e.to_string())?;
    let out = std::process::Command::new(exe).args(["ctstep18", gp, lp, outdir, &cfg.to_json().to_string()]).stderr(std::process::Stdio::null()).output().map_err(|e| e.to_string())?;
    let raw = String::from_utf8_lossy(&out.stdout).to_string();
    if !out.status.success() && !raw.contains("PARSER") {
        return Err(format!("build step process failed: {} {raw}", out.status));
    }
    let pl = raw.lines().find(|l| l.starts_with("PARSER")).unwrap_or("");
    let ll = raw.lines().find(|l| l.starts_with("LEXER")).unwrap_or("");
    Ok(StepOut { parser_ok: pl.starts_with("PARSER ok"), regenerated: if pl.contains("regenerated=true") { Some(true) } else if pl.contains("regenerated=false") { Some(false) } else { None }, lexer_ok: ll.starts_with("LEXER ok"), raw })
}

/// A different visibility; half of the time plain `pub` (whose name is a prefix of all the others').
fn next_vis(rng: &mut Rng, cur: u8) -> u8 {
    if cur != 1 && rng.chance(1, 2) {
        1
    } else {
        (cur + 1 + rng.below(5) as u8) % 6
    }
}

fn mtime(p: &str) -> Option<std::time::SystemTime> {
    std::fs::metadata(p).ok()?.modified().ok()
}

/// Wait until the file system clock has moved past the modification times of `paths`: file
/// timestamps are coarse (several ms), and the builder skips a build only if its output is
/// strictly newer than the grammar, so a history whose steps are microseconds apart would
/// otherwise produce timestamp ties that no edit made by a person has.
fn settle(dir: &str, paths: &[&str]) {
    let newest = paths.iter().filter_map(|p| mtime(p)).max();
    let Some(newest) = newest else { return };
    let probe = format!("{dir}/.tick");
    for _ in 0..400 {
        std::fs::write(&probe, b"x").ok();
        if mtime(&probe).is_some_and(|t| t > newest) {
            break;
        }
        std::thread::sleep(std::time::Duration::from_millis(1));
    }
    std::fs::remove_file(&probe).ok();
}

fn file_id(p: &str) -> Option<(u64, i64, i64)> {
    use std::os::unix::fs::MetadataExt;
    std::fs::metadata(p).ok().map(|m| (m.ino(), m.mtime(), m.mtime_nsec()))
}

fn valid_grammar(rng: &mut Rng) -> AG {
    loop {
        let mut g = gen_ct_grammar(rng, false);
        g.expect = None;
        g.expectrr = None;
        // the builder must be able to construct a table for it
        match build_grm(&g) {
            Ok(b) if matches!(guarded(|| b.table()), Ok(Ok(_))) => return g,
            _ => continue,
        }
    }
}

impl Check for C18 {
    fn id(&self) -> &'static str {
        "C18"
    }
    fn ncases(&self, tier: Tier) -> u64 {
        tier.sz(128, 1600)
    }
    fn rule(&self) -> &'static str {
        "one history per case: 8 (quick) / 14 (thorough) seeded steps over {edit grammar to another valid grammar, edit only the grammar body keeping the token numbering (two thirds of these with the file's time stamp equal to the generated parser's), edit lexer, change one builder option (recoverer, yacckind, serialisation format, visibility (all six variants), edition, module names, error_on_conflicts, warnings_are_errors, lexer flag), make the grammar invalid (syntax error / unknown rule / conflict under error_on_conflicts / unused token under warnings_are_errors), make the lexer invalid, repair, rebuild unchanged}; every step ends with an incremental build in a subprocess followed by a clean-build oracle in another subprocess (same grammar path, empty output directory); compared: success/failure, generated parser and lexer files byte-identical modulo build timestamp, no generated parser left behind by a failing build, regenerated() true iff sources or settings changed since the last successful build (or the output was removed by a failed build), lexer output untouched (inode+mtime) iff nothing it depends on changed. Non-trivial = history with >= 1 skipped build and >= 1 regeneration caused by an option change or a failure followed by a repair; distinct by history."
    }
    fn assumptions(&self) -> Vec<&'static str> {
        vec!["file timestamps are real; edits always happen after the previous build's output was written, so the strict mtime comparison in the skip test sees them the way a user's edits would be seen", "files are never touched without a content change", "every build starts after the file-system clock has ticked past the last edit (the harness waits for it); if the generated parser is nevertheless not strictly newer than the grammar file, a regeneration without a change is the builder's documented conservative behaviour and is counted (regenerated_on_timestamp_tie), not reported"]
    }
    fn floor(&self, tier: Tier) -> u64 {
        tier.sz(60, 800)
    }
    fn required_counters(&self, _t: Tier) -> Vec<&'static str> {
        vec!["histories", "steps", "builds_skipped", "builds_regenerated", "builds_failed", "option_changes", "failing_builds_after_good_build", "files_compared_with_clean_build", "same_token_edits_at_the_output_time_stamp", "failing_lexer_builds"]
    }
    fn case_cap_s(&self, _t: Tier) -> u64 {
        300
    }
    fn run_case(&self, seed: u64, idx: u64, tier: Tier) -> CaseOut {
        let mut out = CaseOut::new();
        let mut rng = Rng::derive(seed, "C18", idx, 0);
        let dir = format!("{VERIF_DIR}/work/c18-{}-{idx}", std::process::id());
        std::fs::remove_dir_all(&dir).ok();
        std::fs::create_dir_all(&dir).ok();
        let gp = format!("{dir}/g.y");
        let lp = format!("{dir}/g.l");
        let outd = format!("{dir}/out");
        let mut g = valid_grammar(&mut rng);
        let mut cfg = Cfg18 { kind: g.kind, recoverer: None, fixed_ints: None, edition: 2, vis: rng.below(6) as u8, mod_name: None, error_on_conflicts: false, warnings_are_errors: false, lex_mod_name: None, lex_case_insensitive: None, lex_strict: false };
        let render = |g: &AG, rng: &mut Rng| render_fancy(g, rng, &YOpts::plain()).text;
        let mut gtext = render(&g, &mut rng);
        let mut ltext = lexer_for(&g);
        std::fs::write(&gp, &gtext).ok();
        std::fs::write(&lp, &ltext).ok();
        // (grammar text, parser-relevant cfg) of the last successful parser build, if its output still exists
        let mut last_ok: Option<(String, Value)> = None;
        let mut last_lexer_ok: Option<(String, String, Value)> = None; // (lexer text, grammar text, cfg)
        let mut history: Vec<String> = vec![];
        let nsteps = tier.sz(8, 14);
        let mut skipped = 0;
        let mut regen_by_option_or_repair = 0;
        let mut grammar_valid = true;
        let mut lexer_valid = true;
        let mut prev_step_failed = false;
        out.count("histories", 1);
        for step in 0..nsteps {
            // choose an operation
            let op = if step == 0 {
                0
            } else if !grammar_valid || !lexer_valid {
                rng.weighted(&[6, 8, 4, 10, 4, 2, 40, 4, 3])
            } else {
                rng.weighted(&[14, 14, 10, 26, 14, 8, 4, 14, 8])
            };
            match op {
                0 => history.push("build".into()),
                1 => {
                    // edit grammar (to a valid one)
                    g = valid_grammar(&mut rng);
                    cfg.kind = g.kind;
                    gtext = render(&g, &mut rng);
                    ltext = lexer_for(&g);
                    std::fs::write(&gp, &gtext).ok();
                    std::fs::write(&lp, &ltext).ok();
                    grammar_valid = true;
                    lexer_valid = true;
                    history.push("edit-grammar+lexer".into());
                }
                2 => {
                    // edit lexer only (still valid): add a skip rule
                    ltext = format!("{}zz{} ;\n", lexer_for(&g), rng.below(1000));
                    std::fs::write(&lp, &ltext).ok();
                    lexer_valid = true;
                    history.push("edit-lexer".into());
                }
                3 => {
                    out.count("option_changes", 1);
                    let which = rng.weighted(&[2, 2, 2, 5, 2, 2, 2, 2, 2, 2, 3]);
                    match which {
                        0 => cfg.recoverer = *rng.pick(&[None, Some(true), Some(false)]),
                        1 => {
                            // switch between the action-free kinds (same grammar text is valid for both)
                            if matches!(cfg.kind, AKind::OriginalGeneric | AKind::OriginalNoAction) {
                                cfg.kind = if cfg.kind == AKind::OriginalGeneric { AKind::OriginalNoAction } else { AKind::OriginalGeneric };
                            } else {
                                cfg.vis = next_vis(&mut rng, cfg.vis);
                            }
                        }
                        2 => cfg.fixed_ints = *rng.pick(&[None, Some(true), Some(false)]),
                        3 => cfg.vis = next_vis(&mut rng, cfg.vis),
                        4 => cfg.edition = (cfg.edition + 1 + rng.below(2) as u8) % 3,
                        5 => cfg.mod_name = if cfg.mod_name.is_some() { None } else { Some(format!("pm{}_y", rng.below(3))) },
                        6 => cfg.error_on_conflicts = !cfg.error_on_conflicts,
                        7 => cfg.warnings_are_errors = !cfg.warnings_are_errors,
                        8 => cfg.lex_mod_name = if cfg.lex_mod_name.is_some() { None } else { Some(format!("lm{}_l", rng.below(3))) },
                        9 => cfg.lex_case_insensitive = *rng.pick(&[None, Some(true), Some(false)]),
                        _ => cfg.lex_strict = !cfg.lex_strict,
                    }
                    history.push(format!("option#{which}"));
                }
                4 => {
                    // make the grammar invalid
                    let how = rng.below(4);
                    match how {
                        0 => {
                            // syntax error: drop the last ';'
                            if let Some(p) = gtext.rfind(';') {
                                gtext.replace_range(p..p + 1, " ");
                            }
                        }
                        1 => gtext = gtext.replacen("%%", "%%\nZZTop: NoSuchRule;\n", 1),
                        2 => {
                            // a conflict, with conflicts as errors
                            gtext = "%start S\n%%\nS: 'i' S | 'i' S 'e' S | 'x';\n".to_string();
                            cfg.kind = AKind::OriginalGeneric;
                            cfg.error_on_conflicts = true;
                        }
                        _ => {
                            gtext = "%start S\n%token UNUSED\n%%\nS: 'x';\n".to_string();
                            cfg.kind = AKind::OriginalGeneric;
                            cfg.warnings_are_errors = true;
                        }
                    }
                    std::fs::write(&gp, &gtext).ok();
                    grammar_valid = false;
                    history.push(format!("break-grammar#{how}"));
                }
                5 => {
                    ltext = format!("{}( 'BAD'\n", ltext);
                    std::fs::write(&lp, &ltext).ok();
                    lexer_valid = false;
                    history.push("break-lexer".into());
                }
                7 => {
                    // edit the grammar body only: one more alternative built from existing tokens, so the
                    // token numbering (all the cache key knows about the grammar) is unchanged and the file's
                    // time stamp is the only thing that can reveal the edit. Two times out of three the edit
                    // lands in the same clock tick as the previous build's output (equal time stamps).
                    let r = rng.below(g.rules.len());
                    let nt = g.tokens.len().max(1);
                    let k = rng.range(1, 3);
                    let syms: Vec<ASym> = (0..k).map(|_| ASym::T(rng.below(nt))).collect();
                    if !g.rules[r].prods.iter().any(|p| p.syms == syms) {
                        g.add_prod(r, syms);
                        if matches!(g.kind, AKind::Grmtools | AKind::OriginalUser) {
                            // the action kinds need action code on every production (all rules return u64)
                            g.rules[r].prods.last_mut().unwrap().action = Some("9".to_string());
                        }
                    }
                    cfg.kind = g.kind;
                    gtext = render(&g, &mut rng);
                    std::fs::write(&gp, &gtext).ok();
                    grammar_valid = true;
                    let mut tie = false;
                    if rng.chance(2, 3) {
                        if let Some(t) = mtime(&format!("{outd}/g.y.rs")) {
                            if let Ok(f) = std::fs::File::options().write(true).open(&gp) {
                                tie = f.set_modified(t).is_ok();
                            }
                        }
                    }
                    if tie {
                        out.count("same_token_edits_at_the_output_time_stamp", 1);
                    }
                    history.push(if tie { "edit-body-same-tokens@tie".into() } else { "edit-body-same-tokens".into() });
                }
                8 => {
                    // the lexer gains a named rule for a token the grammar does not know: fine by default, a
                    // failing lexer build under the strict lexer settings
                    ltext = format!("{}zzq{} 'EXTRATOK'\n", lexer_for(&g), rng.below(1000));
                    std::fs::write(&lp, &ltext).ok();
                    lexer_valid = true;
                    history.push("edit-lexer-extra-token".into());
                }
                _ => {
                    // repair both
                    cfg.kind = g.kind;
                    cfg.error_on_conflicts = false;
                    cfg.warnings_are_errors = false;
                    gtext = render(&g, &mut rng);
                    ltext = lexer_for(&g);
                    std::fs::write(&gp, &gtext).ok();
                    std::fs::write(&lp, &ltext).ok();
                    grammar_valid = true;
                    lexer_valid = true;
                    history.push("repair".into());
                }
            }
            let _ = (grammar_valid, lexer_valid);
            // ---- build incrementally, then the clean oracle
            out.count("steps", 1);
            out.evals += 1;
            let detail = |x: String| json!({"history": history, "grammar": gtext, "lexer": ltext, "settings": cfg.to_json(), "obs": x});
            let lex_id_before = file_id(&format!("{outd}/g.l.rs"));
            settle(&dir, &[&gp, &lp]);
            // a generated parser that is not strictly newer than the grammar is regenerated whatever else holds
            let output_not_newer = match (mtime(&format!("{outd}/g.y.rs")), mtime(&gp)) {
                (Some(o), Some(g)) => o <= g,
                _ => false,
            };
            let inc = match run_step(&gp, &lp, &outd, &cfg) {
                Ok(s) => s,
                Err(e) => {
                    out.violate("build-step-broken", &["harness"], e, detail(String::new()));
                    break;
                }
            };
            let clean_out = format!("{dir}/clean{step}");
            let clean = match run_step(&gp, &lp, &clean_out, &cfg) {
                Ok(s) => s,
                Err(e) => {
                    out.violate("build-step-broken", &["harness"], e, detail(String::new()));
                    break;
                }
            };
            // (unset recoverer / serialisation format mean the defaults: CPCT+ / variable-sized integers)
            let pcfg = json!([kind_str(cfg.kind), cfg.recoverer.unwrap_or(true), cfg.fixed_ints.unwrap_or(false), cfg.edition, cfg.vis, cfg.mod_name, cfg.error_on_conflicts, cfg.warnings_are_errors]);
            // (the lexer builder's documented way of refusing missing tokens is a panic: only a panic the clean build does not share is reported)
            if inc.raw.contains("PARSER panic") || (inc.raw.contains("LEXER panic") && !clean.raw.contains("LEXER panic")) {
                out.violate("panic", &["ct-build"], format!("incremental build panicked: {}", inc.raw.trim()), detail(String::new()));
            }
            if inc.parser_ok != clean.parser_ok || (inc.parser_ok && inc.lexer_ok != clean.lexer_ok) {
                out.violate("outcome-differs-from-clean-build", &[], format!("incremental build: [{}] clean build: [{}]", inc.raw.trim().replace('\n', " | "), clean.raw.trim().replace('\n', " | ")), detail(String::new()));
            }
            let pfile = format!("{outd}/g.y.rs");
            if !clean.parser_ok {
                out.count("builds_failed", 1);
                if grammar_valid && !cfg.error_on_conflicts && !cfg.warnings_are_errors {
                    out.count("valid_grammar_refused_by_builder", 1);
                    out.inconclusive(&format!("builder refused a grammar the harness considers valid: {}", clean.raw.trim().replace('\n', " | ")));
                }
                if last_ok.is_some() {
                    out.count("failing_builds_after_good_build", 1);
                }
                if std::path::Path::new(&pfile).exists() {
                    let tags: Vec<&str> = if history.last().is_some_and(|h| h == "break-grammar#0" || h == "break-grammar#1" || h == "break-grammar#3") || !grammar_valid { vec!["grammar_error_detected_before_output_removal"] } else { vec![] };
                    out.violate("stale-generated-file", &tags, "the build failed but a generated parser from an earlier configuration is still in the output directory".into(), detail(inc.raw.trim().to_string()));
                }
                last_ok = None;
                prev_step_failed = true;
            } else {
                // files identical to the clean build
                for f in ["g.y.rs", "g.l.rs"] {
                    if f == "g.l.rs" && !clean.lexer_ok {
                        continue;
                    }
                    let a = std::fs::read_to_string(format!("{outd}/{f}")).map(|s| normalise_generated(&s, &dir));
                    let b = std::fs::read_to_string(format!("{clean_out}/{f}")).map(|s| normalise_generated(&s, &dir));
                    out.count("files_compared_with_clean_build", 1);
                    match (a, b) {
                        (Ok(a), Ok(b)) => {
                            if a != b {
                                let d = a.lines().zip(b.lines()).find(|(x, y)| x != y).map(|(x, y)| format!("incremental: {}\nclean: {}", x.chars().take(200).collect::<String>(), y.chars().take(200).collect::<String>())).unwrap_or_else(|| "different lengths".into());
                                out.violate("generated-file-differs-from-clean-build", &[], format!("{f} differs from what a clean build produces"), detail(d));
                            }
                        }
                        (a, b) => out.violate("generated-file-missing", &[], format!("{f}: incremental present={} clean present={}", a.is_ok(), b.is_ok()), detail(String::new())),
                    }
                }
                // a lexer build that fails must not leave an earlier lexer module behind (a clean build leaves none)
                if !clean.lexer_ok {
                    out.count("failing_lexer_builds", 1);
                    let inc_has = std::path::Path::new(&format!("{outd}/g.l.rs")).exists();
                    let clean_has = std::path::Path::new(&format!("{clean_out}/g.l.rs")).exists();
                    if inc_has && !clean_has {
                        out.violate("stale-generated-file", &["lexer"], "the lexer build failed but a generated lexer from an earlier configuration is still in the output directory (a clean build leaves none)".into(), detail(inc.raw.trim().to_string()));
                    }
                }
                // regenerated flag
                let want_regen = match &last_ok {
                    None => true,
                    Some((gt, c)) => *gt != gtext || *c != pcfg,
                };
                match inc.regenerated {
                    Some(r) => {
                        if r {
                            out.count("builds_regenerated", 1);
                            if step > 0 && (history.last().is_some_and(|h| h.starts_with("option")) || prev_step_failed) {
                                regen_by_option_or_repair += 1;
                            }
                        } else {
                            out.count("builds_skipped", 1);
                            skipped += 1;
                        }
                        if r && !want_regen && output_not_newer {
                            out.count("regenerated_on_timestamp_tie", 1);
                        } else if r != want_regen {
                            out.violate("regenerated-flag", &[], format!("regenerated() = {r} but sources/settings {} since the last successful build", if want_regen { "changed" } else { "did not change" }), detail(String::new()));
                        }
                    }
                    None => out.violate("regenerated-flag", &[], "parser build succeeded without reporting regenerated()".into(), detail(inc.raw.clone())),
                }
                last_ok = Some((gtext.clone(), pcfg.clone()));
                // lexer output untouched iff nothing it depends on changed
                if clean.lexer_ok {
                    let lcfg = json!([cfg.edition, cfg.vis, cfg.lex_mod_name, cfg.lex_case_insensitive, cfg.lex_strict]);
                    let lex_id_after = file_id(&format!("{outd}/g.l.rs"));
                    let unchanged = matches!(&last_lexer_ok, Some((lt, gt, c)) if *lt == ltext && *gt == gtext && *c == lcfg);
                    if unchanged && lex_id_before.is_some() && lex_id_before != lex_id_after {
                        out.violate("lexer-regenerated-without-change", &[], "nothing the lexer depends on changed but its generated file was rewritten".into(), detail(String::new()));
                    }
                    last_lexer_ok = Some((ltext.clone(), gtext.clone(), lcfg));
                } else {
                    last_lexer_ok = None;
                }
                prev_step_failed = false;
            }
            std::fs::remove_dir_all(&clean_out).ok();
        }
        if skipped >= 1 && regen_by_option_or_repair >= 1 {
            out.nontrivial(hash_str(&format!("{history:?}{idx}")));
        }
        if idx % 7 == 0 {
            out.sample = Some(json!({"history": history, "final_settings": cfg.to_json()}));
        }
        std::fs::remove_dir_all(&dir).ok();
        out
    }
}

//! C15 — the same sources always produce the same grammar, table and generated code.
//! Each case's sources are built in N separate processes (fresh hash seeds each) which print a
//! digest of every query and of the generated modules; the driver-side case compares them.

use crate::ag::*;
use crate::ctgen::*;
use crate::yrender::decorate;
use crate::dump::*;
use crate::frame::*;
use crate::rng::{hash_str, Rng};
use serde_json::json;
use std::collections::BTreeMap;

pub struct C15;

fn gen_c15(rng: &mut Rng) -> AG {
    // Eco grammars with several implicit tokens, many precedence lines, %avoid_insert, conflicts,
    // gc seeds: everything that travels through a RandomState hash map or Pager's reprocessing
    let mut g = match rng.below(5) {
        0 => {
            let mut g = gen_gc_seed(rng);
            if rng.chance(1, 2) {
                decorate(&mut g, rng);
            }
            g
        }
        _ => gen_ct_grammar(rng, true),
    };
    if g.kind == AKind::Eco && g.implicit_tokens.len() < 2 {
        g.implicit_tokens.clear();
        for k in 0..rng.range(2, 5) {
            let t = g.tok(&format!("ws{k}"));
            g.implicit_tokens.push(t);
        }
    }
    for t in g.tokens.iter_mut() {
        t.name = t.name.replace([' ', '\'', '"'], "_");
    }
    // every third grammar: two token names that differ only in case (their N_<NAME> constants in the
    // generated lexer module collide, so whatever is emitted for them must not depend on map order)
    if rng.chance(1, 3) && g.tokens.len() >= 2 && !g.tokens.iter().any(|t| t.name.eq_ignore_ascii_case("kw")) {
        let a = rng.below(g.tokens.len());
        let mut b = rng.below(g.tokens.len());
        if b == a {
            b = (a + 1) % g.tokens.len();
        }
        g.tokens[a].name = "kw".to_string();
        g.tokens[b].name = "KW".to_string();
    }
    g
}

/// What one process observes for case `idx`.
pub fn digest_main(seed: u64, idx: u64, slot: u64) {
    let mut rng = Rng::derive(seed, "C15", idx, 0);
    let g = gen_c15(&mut rng);
    let rd = crate::yrender::render_fancy(&g, &mut rng, &crate::yrender::YOpts::plain());
    let grm = match cfgrammar::yacc::YaccGrammar::<u32>::new(g.kind.yacckind(), &rd.text) {
        Ok(x) => x,
        Err(e) => {
            println!("ERR grammar rejected {e:?}");
            return;
        }
    };
    println!("GRM {:016x}", hash_str(&dump_grm(&grm)));
    match lrtable::from_yacc(&grm, lrtable::Minimiser::Pager) {
        Err(e) => println!("TABLE err {e}"),
        Ok((sg, st)) => {
            println!("GRAPH {:016x}", hash_str(&dump_graph(&sg)));
            println!("TABLE {:016x}", hash_str(&dump_table(&grm, usize::from(sg.all_states_len()), &st, true)));
            // twice in one process as well
            let (sg2, st2) = lrtable::from_yacc(&grm, lrtable::Minimiser::Pager).unwrap();
            println!("GRAPH2 {:016x}", hash_str(&dump_graph(&sg2)));
            println!("TABLE2 {:016x}", hash_str(&dump_table(&grm, usize::from(sg2.all_states_len()), &st2, true)));
        }
    }
    if g.kind != AKind::Eco {
        let dir = format!("{VERIF_DIR}/work/c15-{}-{idx}-{slot}", std::process::id());
        let mut rng2 = Rng::derive(seed, "C15", idx, 7);
        let set = CtSettings::random(&mut rng2);
        std::fs::create_dir_all(&dir).ok();
        std::fs::write(format!("{dir}/g.y"), &rd.text).ok();
        std::fs::write(format!("{dir}/g.l"), lexer_for(&g)).ok();
        match ct_build(&dir, g.kind, &set) {
            Err(_) => println!("CT err"),
            Ok((p, l, _)) => {
                let ps = std::fs::read_to_string(&p).unwrap_or_default();
                let ls = std::fs::read_to_string(&l).unwrap_or_default();
                if let Ok(p) = std::env::var("VCHECK_DUMP_RS") {
                    std::fs::write(format!("{p}.{slot}.y.rs"), normalise_generated(&ps, &dir)).ok();
                    std::fs::write(format!("{p}.{slot}.l.rs"), normalise_generated(&ls, &dir)).ok();
                }
                println!("PARSER_RS {:016x} {}", hash_str(&normalise_generated(&ps, &dir)), normalise_generated(&ps, &dir).len());
                println!("LEXER_RS {:016x} {}", hash_str(&normalise_generated(&ls, &dir)), normalise_generated(&ls, &dir).len());
            }
        }
        std::fs::remove_dir_all(&dir).ok();
    }
}

fn run_digest(seed: u64, idx: u64, slot: u64) -> Result<String, String> {
    let exe = std::env::current_exe().map_err(|e| e.to_string())?;
    let out = std::process::Command::new(exe).args(["digest15", &seed.to_string(), &idx.to_string(), &slot.to_string()]).stderr(std::process::Stdio::null()).output().map_err(|e| e.to_string())?;
    if !out.status.success() {
        return Err(format!("digest process failed: {}", out.status));
    }
    Ok(String::from_utf8_lossy(&out.stdout).to_string())
}

impl Check for C15 {
    fn id(&self) -> &'static str {
        "C15"
    }
    fn ncases(&self, tier: Tier) -> u64 {
        // the last case is the thread clause (compiled generated parsers, see c13.rs)
        tier.sz(200, 1200) + 1
    }
    fn rule(&self) -> &'static str {
        "one grammar + lexer per case (all syntaxes incl. Eco with 2-5 implicit tokens, many precedence lines, %avoid_insert, %epp, conflicts, seeds on which Pager re-processes and garbage-collects states) built in N separate processes (8 quick / 32 thorough; each has fresh RandomState hash keys): every process prints a digest of all grammar queries, the state graph, the table (conflicts as a sorted set), a second in-process build, and the bytes of the generated parser and lexer modules (build timestamp and scratch directory blanked); all N digests must be equal. Plus the thread clause (see the C13 engine): a compiled generated parser called from 16 threads released by a barrier on first use. Non-trivial = grammar with >= 2 entries in a RandomState map on its path (implicit tokens, precedences, %avoid_insert, %epp) or gc activity; distinct by grammar."
    }
    fn assumptions(&self) -> Vec<&'static str> {
        vec!["an ordering leak that manifests with probability p per process is missed with probability (1-p)^N per case"]
    }
    fn floor(&self, tier: Tier) -> u64 {
        tier.sz(80, 500)
    }
    fn required_counters(&self, _t: Tier) -> Vec<&'static str> {
        vec!["cases_compared", "processes_spawned", "eco_multi_implicit_cases", "generated_modules_compared", "thread_runs", "thread_calls_overlapping_first_use"]
    }
    fn case_cap_s(&self, _t: Tier) -> u64 {
        1500
    }
    fn sanitizer_leg(&self, tier: Tier, _seed: u64) -> Option<Leg> {
        // thread clause: first use of one lazily reconstituted table from several threads, under Miri's
        // data-race detector with four scheduler seeds
        if tier != Tier::Thorough {
            return None;
        }
        Some(run_miri_leg("OK threads", 1, 4, std::time::Duration::from_secs(2400)))
    }
    fn run_case(&self, seed: u64, idx: u64, tier: Tier) -> CaseOut {
        let mut out = CaseOut::new();
        if idx + 1 == self.ncases(tier) {
            // thread clause: compile a few generated parsers and call each from 16 threads at once, in
            // fresh processes, so that the first-use initialisation races with the other calls
            let _lock = crate::c13::VctLock::acquire();
            match crate::c13::vct_generate_and_build(seed ^ 0x15, 6, 8) {
                Err((kind, what, detail)) => out.violate(&kind, &["harness"], what, detail),
                Ok((n, _metas, secs)) => {
                    out.count("rustc_seconds", secs);
                    out.evals += 1;
                    crate::c13::vct_thread_runs(&mut out, n, tier.sz(24, 300));
                    out.sample = Some(json!({"thread_clause": {"modules": n, "processes": tier.sz(24, 300), "threads_per_process": 16}}));
                }
            }
            return out;
        }
        let mut rng = Rng::derive(seed, "C15", idx, 0);
        let g = gen_c15(&mut rng);
        let n = tier.sz(8, 32);
        let mut outs: Vec<String> = vec![];
        for slot in 0..n {
            out.count("processes_spawned", 1);
            match run_digest(seed, idx, slot) {
                Ok(s) => outs.push(s),
                Err(e) => {
                    out.violate("digest-process-failed", &["harness"], e, g.to_json());
                    return out;
                }
            }
        }
        out.evals += 1;
        out.count("cases_compared", 1);
        let eco_multi = g.kind == AKind::Eco && g.implicit_tokens.len() >= 2;
        if eco_multi {
            out.count("eco_multi_implicit_cases", 1);
        }
        if outs[0].contains("PARSER_RS") {
            out.count("generated_modules_compared", 1);
        }
        let hashed = g.precs.len() >= 2 || g.avoid_insert.len() >= 2 || g.epp.len() >= 2 || eco_multi || g.family == "gc-seed";
        if hashed {
            out.nontrivial(hash_str(&g.normal_form()));
        }
        let mut distinct: BTreeMap<&str, usize> = BTreeMap::new();
        for o in &outs {
            *distinct.entry(o.as_str()).or_insert(0) += 1;
        }
        out.max("distinct_digests_in_a_case", distinct.len() as u64);
        if distinct.len() > 1 {
            // which lines differ
            let a: Vec<&str> = outs[0].lines().collect();
            let mut differing: Vec<String> = vec![];
            for o in &outs[1..] {
                for (x, y) in a.iter().zip(o.lines()) {
                    if *x != y {
                        let k = x.split(' ').next().unwrap_or("").to_string();
                        if !differing.contains(&k) {
                            differing.push(k);
                        }
                    }
                }
            }
            let tags: Vec<&str> = if eco_multi { vec!["eco_two_or_more_implicit_tokens"] } else { vec![] };
            out.violate("digest-differs-between-processes", &tags, format!("{} distinct digests over {} processes; differing parts: {:?}", distinct.len(), n, differing), json!({"grammar": g.render(), "kind": g.kind.name(), "digests": distinct.keys().take(3).collect::<Vec<_>>()}));
        }
        for o in &outs {
            let get = |k: &str| o.lines().find(|l| l.starts_with(k)).map(|l| l.to_string());
            if let (Some(a), Some(b)) = (get("GRAPH "), get("GRAPH2 ")) {
                if a.split(' ').nth(1) != b.split(' ').nth(1) {
                    out.violate("digest-differs-within-process", &[], "two builds of the same grammar in one process gave different state graphs".into(), g.to_json());
                    break;
                }
            }
            if let (Some(a), Some(b)) = (get("TABLE "), get("TABLE2 ")) {
                if a.split(' ').nth(1) != b.split(' ').nth(1) {
                    out.violate("digest-differs-within-process", &[], "two builds of the same grammar in one process gave different tables".into(), g.to_json());
                    break;
                }
            }
        }
        if idx % 9 == 0 {
            out.sample = Some(json!({"grammar": g.render(), "kind": g.kind.name(), "processes": n, "digest_of_first_process": outs[0].lines().collect::<Vec<_>>()}));
        }
        out
    }
}

//! C19 — byte offsets ↔ lines/columns; lines-of-span never fails.
//!
//! Oracle: a naive line model (scan for '\n'), compared against `NewlineCache` (fed in every
//! chunking), `LRNonStreamingLexer::{line_col, span_lines_str}` and the text of
//! `LexParseError::pp`.

use crate::frame::*;
use crate::rng::{hash_str, Rng};
use cfgrammar::{NewlineCache, Span};
use lrlex::{DefaultLexerTypes, LRLexError, LRNonStreamingLexer};
use lrpar::{LexParseError, Lexeme, Lexer, NonStreamingLexer};
use serde_json::{json, Map, Value};
use std::collections::BTreeMap;
use std::str::FromStr;

pub struct C19;

thread_local! {
    /// a lexer definition with a rule for letters (token id 0), a named rule for digits that has NO token
    /// id (as if the grammar did not know the token), white space skipped, everything else unmatched
    static LEXDEF: lrlex::LRNonStreamingLexerDef<DefaultLexerTypes<u32>> = {
        use lrlex::LexerDef;
        let mut ld = lrlex::LRNonStreamingLexerDef::<DefaultLexerTypes<u32>>::from_str("%%\n[a-z]+ 'ID'\n[0-9]+ 'NUM'\n[ \\t\\n\\r]+ ;\n").expect("lexer definition");
        let mut map = std::collections::HashMap::new();
        map.insert("ID", 0u32);
        let _ = ld.set_rule_ids(&map);
        ld
    };
}

thread_local! {
    /// grammar `S: ;` with one token, its table and the token's id (for parse errors at a chosen lexeme)
    static PE_TABLE: (cfgrammar::yacc::YaccGrammar<u32>, lrtable::StateTable<u32>, u32) = {
        let grm = cfgrammar::yacc::YaccGrammar::new(cfgrammar::yacc::YaccKind::Original(cfgrammar::yacc::YaccOriginalActionKind::NoAction), "%start S\n%token a\n%%\nS: ;\n").expect("grammar");
        let (_, st) = lrtable::from_yacc(&grm, lrtable::Minimiser::Pager).expect("table");
        let tid = u32::from(grm.token_idx("a").expect("token"));
        (grm, st, tid)
    };
}

const ALPHA: [&str; 7] = ["a", "é", "♠", "\n", "\r", " ", "7"];

fn exhaustive_len(tier: Tier) -> usize {
    tier.sz(4, 6) as usize
}
fn n_exh_cases(tier: Tier) -> u64 {
    tier.sz(16, 96)
}
fn n_rand_cases(tier: Tier) -> u64 {
    tier.sz(16, 96)
}

/// the idx-th string (in length-lexicographic order) over ALPHA, or None past length `maxlen`
fn nth_text(mut i: u64, maxlen: usize) -> Option<String> {
    let mut len = 0usize;
    let mut block = 1u64;
    loop {
        if i < block {
            break;
        }
        i -= block;
        len += 1;
        block *= ALPHA.len() as u64;
        if len > maxlen {
            return None;
        }
    }
    let mut out = Vec::new();
    for _ in 0..len {
        out.push(ALPHA[(i % ALPHA.len() as u64) as usize]);
        i /= ALPHA.len() as u64;
    }
    Some(out.concat())
}

fn space_size(maxlen: usize) -> u64 {
    let mut tot = 0u64;
    let mut b = 1u64;
    for _ in 0..=maxlen {
        tot += b;
        b *= ALPHA.len() as u64;
    }
    tot
}

struct Model<'a> {
    s: &'a str,
    /// byte offsets of line starts
    starts: Vec<usize>,
}

impl<'a> Model<'a> {
    fn new(s: &'a str) -> Self {
        let mut starts = vec![0];
        for (i, b) in s.bytes().enumerate() {
            if b == b'\n' {
                starts.push(i + 1);
            }
        }
        Model { s, starts }
    }
    fn line(&self, off: usize) -> usize {
        1 + self.s.as_bytes()[..off].iter().filter(|b| **b == b'\n').count()
    }
    fn line_start(&self, off: usize) -> usize {
        *self.starts.iter().rev().find(|x| **x <= off).unwrap()
    }
    /// end of the line that contains offset `off` (offset of its '\n', or len)
    fn line_end(&self, off: usize) -> usize {
        match self.s.as_bytes()[off..].iter().position(|b| *b == b'\n') {
            Some(p) => off + p,
            None => self.s.len(),
        }
    }
    /// accepted columns for a char-boundary offset
    fn cols(&self, off: usize) -> Vec<usize> {
        let ls = self.line_start(off);
        let k = self.s[ls..off].chars().count();
        let mut v = vec![k + 1];
        let b = self.s.as_bytes();
        if off < b.len() && b[off] == b'\n' && off > 0 && b[off - 1] == b'\r' && off - 1 >= ls {
            v.push(k); // CR LF counted once
        }
        v
    }
    /// accepted (start, end) results of lines-of-span
    fn span_lines(&self, st: usize, en: usize) -> (usize, Vec<usize>) {
        let start = self.line_start(st);
        let mut ends = vec![self.line_end(en)]; // line holding offset `en`
        if en > st {
            let e1 = self.line_end(en - 1); // line holding the span's last byte
            if !ends.contains(&e1) {
                ends.push(e1);
            }
        }
        (start, ends)
    }
}

/// Reference rendering of `underline_span_with_text(st..en, msg, '^')`: for every line the span
/// touches, "<line number>| <line text>" and, below it, the underline: indented by the width of the
/// label plus the display width of the text before the underlined part, one '^' per display column of
/// the part of the span on that line (at least one); the message follows the last underline. One
/// rendering per accepted reading of "the lines of the span" (see `span_lines`).
fn model_underline(m: &Model, st: usize, en: usize, msg: &str) -> Vec<String> {
    use unicode_width::UnicodeWidthStr;
    let s = m.s;
    let (start, ends) = m.span_lines(st, en);
    let mut outs = vec![];
    for e in ends {
        // physical lines of s[start..e]: split at LF, a CR directly before the LF belongs to the terminator
        let region = &s[start..e];
        let mut pieces: Vec<(usize, &str)> = vec![];
        let mut ls = start;
        for part in region.split_inclusive('\n') {
            let body = part.strip_suffix('\n').map(|b| b.strip_suffix('\r').unwrap_or(b)).unwrap_or(part);
            pieces.push((ls, body));
            ls += part.len();
        }
        let mut o = String::new();
        let n = pieces.len();
        for (k, (ls, text)) in pieces.iter().enumerate() {
            let cur = if k == 0 { st } else { (*ls).min(en) };
            let off = cur - ls;
            let ul_end = en.min(cur + text.len().saturating_sub(off));
            let line_num = m.line(cur);
            o.push_str(&format!("{line_num}| {text}\n"));
            let indent = UnicodeWidthStr::width(&s[*ls..cur]) + line_num.to_string().len() + 2;
            let under = UnicodeWidthStr::width(&s[cur..ul_end.max(cur)]).max(1);
            o.push_str(&" ".repeat(indent));
            o.push_str(&"^".repeat(under));
            if k + 1 == n {
                o.push_str(&format!(" {msg}"));
            } else {
                o.push('\n');
            }
        }
        outs.push(o);
    }
    outs
}

fn boundaries(s: &str) -> Vec<usize> {
    let mut v: Vec<usize> = s.char_indices().map(|(i, _)| i).collect();
    v.push(s.len());
    v
}

/// Check one text completely: all chunkings into <= 3 feeds (if `all_chunkings`), all offsets, all spans.
fn check_text(s: &str, all_chunkings: bool, rng: &mut Rng, out: &mut CaseOut) {
    let m = Model::new(s);
    let bs = boundaries(s);
    let mut chunkings: Vec<(usize, usize)> = vec![];
    if all_chunkings {
        for (i, &a) in bs.iter().enumerate() {
            for &b in &bs[i..] {
                chunkings.push((a, b));
            }
        }
    } else {
        chunkings.push((0, s.len()));
        for _ in 0..4 {
            let a = *rng.pick(&bs);
            let b = *rng.pick(&bs);
            chunkings.push((a.min(b), a.max(b)));
        }
    }
    let has_nl = s.contains('\n');
    for &(c1, c2) in &chunkings {
        let feeds = [&s[..c1], &s[c1..c2], &s[c2..]];
        // lookups interleaved with the feeds: after each piece the cache is asked about the end of what it
        // has seen so far (an offset on the then-last line) and about the middle; the answers must be those
        // for the prefix as a text of its own, and the cache must go on to answer for the whole text below
        let mut inter: Vec<(usize, usize, Option<usize>, Option<usize>, Option<(usize, usize)>)> = vec![];
        let cache = match guarded(|| {
            let mut c = NewlineCache::new();
            let mut fed = 0;
            let mut inter = vec![];
            for f in feeds.iter() {
                c.feed(f);
                fed += f.len();
                let mid = bs.iter().rev().find(|b| **b <= fed / 2).cloned().unwrap_or(0);
                for off in [fed, mid] {
                    inter.push((fed, off, c.byte_to_line_num(off), c.byte_to_line_byte(off), c.byte_to_line_num_and_col_num(&s[..fed], off)));
                }
            }
            (c, inter)
        }) {
            Ok((c, i)) => {
                inter = i;
                c
            }
            Err(p) => {
                out.violate("panic", &["feed"], format!("NewlineCache::feed panicked: {p}"), json!({"text": s, "feeds": feeds}));
                return;
            }
        };
        out.count("chunkings", 1);
        let mut pm: Option<(usize, Model)> = None;
        for (fed, off, ln, lb, lc) in inter {
            if pm.as_ref().map(|x| x.0) != Some(fed) {
                pm = Some((fed, Model::new(&s[..fed])));
            }
            let pmm = &pm.as_ref().unwrap().1;
            out.count("interleaved_lookups", 1);
            let ok = ln == Some(pmm.line(off)) && lb == Some(pmm.line_start(off)) && matches!(lc, Some((l, c)) if l == pmm.line(off) && pmm.cols(off).contains(&c));
            if !ok {
                out.violate("line-mismatch", &["lookup_between_feeds"], format!("after feeding the first {fed} bytes, offset {off} was reported at line {ln:?}, line start {lb:?}, line/col {lc:?}; expected line {}, line start {}, col in {:?}", pmm.line(off), pmm.line_start(off), pmm.cols(off)), json!({"text": s, "feeds": feeds, "offset": off}));
            }
        }
        // offsets
        for &off in &bs {
            out.evals += 1;
            out.count("offsets", 1);
            let exp_line = m.line(off);
            let exp_cols = m.cols(off);
            match guarded(|| (cache.byte_to_line_num(off), cache.byte_to_line_byte(off), cache.byte_to_line_num_and_col_num(s, off))) {
                Err(p) => out.violate("panic", &["offset-query"], format!("offset query panicked: {p}"), json!({"text": s, "feeds": feeds, "offset": off})),
                Ok((ln, lb, lc)) => {
                    if ln != Some(exp_line) {
                        out.violate("line-mismatch", &[], format!("byte_to_line_num({off}) = {ln:?}, expected {exp_line}"), json!({"text": s, "feeds": feeds, "offset": off}));
                    }
                    if lb != Some(m.line_start(off)) {
                        out.violate("line-byte-mismatch", &[], format!("byte_to_line_byte({off}) = {lb:?}, expected {}", m.line_start(off)), json!({"text": s, "feeds": feeds, "offset": off}));
                    }
                    match lc {
                        Some((l, c)) if l == exp_line && exp_cols.contains(&c) => {
                            if exp_cols.len() > 1 {
                                out.count("crlf_columns", 1);
                            }
                        }
                        _ => out.violate("column-mismatch", &[], format!("byte_to_line_num_and_col_num({off}) = {lc:?}, expected line {exp_line} col in {exp_cols:?}"), json!({"text": s, "feeds": feeds, "offset": off})),
                    }
                }
            }
        }
        // beyond-the-end offsets must be None
        if let Ok(r) = guarded(|| cache.byte_to_line_num(s.len() + 1)) {
            if r.is_some() {
                out.violate("line-mismatch", &[], format!("byte_to_line_num(len+1) = {r:?}, expected None"), json!({"text": s, "feeds": feeds}));
            }
        }
        // spans
        for (i, &st) in bs.iter().enumerate() {
            for &en in &bs[i..] {
                out.evals += 1;
                out.count("spans", 1);
                let (exp_st, exp_ens) = m.span_lines(st, en);
                let end_at_line_start = en > 0 && s.as_bytes()[en - 1] == b'\n' && en > m.line_start(st);
                if end_at_line_start {
                    out.count("spans_ending_at_line_start", 1);
                }
                if en == s.len() {
                    out.count("spans_ending_at_text_end", 1);
                }
                if st == en {
                    out.count("empty_spans", 1);
                }
                if m.line(st) != m.line(en) {
                    out.count("multi_line_spans", 1);
                }
                let tags: Vec<&str> = if end_at_line_start { vec!["span_end_is_later_line_start"] } else { vec![] };
                match guarded(|| cache.span_line_bytes(Span::new(st, en))) {
                    Err(p) => out.violate("span-lines-panic", &tags, format!("span_line_bytes({st}..{en}) panicked: {p}"), json!({"text": s, "feeds": feeds, "span": [st, en]})),
                    Ok((a, b)) => {
                        if a != exp_st || !exp_ens.contains(&b) {
                            out.violate("span-lines-wrong", &tags, format!("span_line_bytes({st}..{en}) = ({a},{b}), expected ({exp_st}, one of {exp_ens:?})"), json!({"text": s, "feeds": feeds, "span": [st, en]}));
                        }
                    }
                }
            }
        }
    }
    // through the lexer API (single feed)
    let lexer: LRNonStreamingLexer<DefaultLexerTypes<u32>> =
        LRNonStreamingLexer::new(s, vec![], NewlineCache::from_str(s).unwrap());
    // a parse error at a real lexeme st..en: the grammar accepts only the empty input, the lexer holds the
    // single lexeme st..en, so the parser reports its error at that lexeme and pp must print its START
    PE_TABLE.with(|t| {
        let (grm, stable, tid) = &*t;
        let spans: Vec<(usize, usize)> = if all_chunkings {
            bs.iter().enumerate().flat_map(|(i, &a)| bs[i..].iter().map(move |&b| (a, b))).collect()
        } else {
            (0..40).map(|_| { let a = rng.below(bs.len()); let b = a + rng.below(bs.len() - a); (bs[a], bs[b]) }).collect()
        };
        for (st, en) in spans {
            let lx: LRNonStreamingLexer<DefaultLexerTypes<u32>> = LRNonStreamingLexer::new(s, vec![Ok(lrlex::DefaultLexeme::new(*tid, st, en - st))], NewlineCache::from_str(s).unwrap());
            let r = guarded(|| {
                let pb = lrpar::RTParserBuilder::new(grm, stable).recoverer(lrpar::RecoveryKind::None);
                let (_, errs) = pb.parse_map(&lx, &|_| (), &|_, _| ());
                errs.first().map(|e| e.pp(&lx, &|_| None))
            });
            out.evals += 1;
            match r {
                Err(p) => out.violate("panic", &["pp-parse-error"], format!("pp of a parse error at {st}..{en} panicked: {p}"), json!({"text": s, "span": [st, en]})),
                Ok(None) => out.violate("pp-mismatch", &["pp-parse-error", "harness"], "the one-lexeme parse reported no error".into(), json!({"text": s, "span": [st, en]})),
                Ok(Some(txt)) => {
                    out.count("pp_parse_errors_checked", 1);
                    if en > st {
                        out.count("pp_parse_errors_at_nonempty_lexemes", 1);
                    }
                    if !m.cols(st).iter().any(|c| txt == format!("Parsing error at line {} column {}. No repair sequences found.", m.line(st), c)) {
                        out.violate("pp-mismatch", &["pp-parse-error"], format!("pp of a parse error at lexeme {st}..{en} = {txt:?}, expected line {} column {:?}", m.line(st), m.cols(st)), json!({"text": s, "span": [st, en]}));
                    }
                }
            }
        }
    });
    for (i, &st) in bs.iter().enumerate() {
        for &en in &bs[i..] {
            out.evals += 1;
            out.count("lexer_api_spans", 1);
            let (exp_st, exp_ens) = m.span_lines(st, en);
            let end_at_line_start = en > 0 && s.as_bytes()[en - 1] == b'\n' && en > m.line_start(st);
            let tags: Vec<&str> = if end_at_line_start { vec!["span_end_is_later_line_start"] } else { vec![] };
            match guarded(|| (lexer.span_lines_str(Span::new(st, en)).to_string(), lexer.line_col(Span::new(st, en)))) {
                Err(p) => out.violate("span-lines-panic", &tags, format!("lexer span_lines_str/line_col({st}..{en}) panicked: {p}"), json!({"text": s, "span": [st, en], "api": "NonStreamingLexer"})),
                Ok((txt, ((l1, c1), (l2, c2)))) => {
                    if !exp_ens.iter().any(|e| txt == s[exp_st..*e]) {
                        out.violate("span-lines-wrong", &tags, format!("span_lines_str({st}..{en}) = {txt:?}, expected one of {:?}", exp_ens.iter().map(|e| &s[exp_st..*e]).collect::<Vec<_>>()), json!({"text": s, "span": [st, en], "api": "NonStreamingLexer"}));
                    }
                    // a position is a function of the offset alone: the end of st..en and the start of en..en agree
                    if let Ok(((l3, c3), _)) = guarded(|| lexer.line_col(Span::new(en, en))) {
                        if (l2, c2) != (l3, c3) {
                            out.violate("column-mismatch", &["same_offset_two_answers"], format!("line_col({st}..{en}) ends at ({l2},{c2}) but line_col({en}..{en}) starts at ({l3},{c3})"), json!({"text": s, "span": [st, en], "api": "NonStreamingLexer"}));
                        }
                    }
                    if l1 != m.line(st) || !m.cols(st).contains(&c1) || l2 != m.line(en) || !m.cols(en).contains(&c2) {
                        out.violate("column-mismatch", &[], format!("line_col({st}..{en}) = (({l1},{c1}),({l2},{c2})), expected (({},{:?}),({},{:?}))", m.line(st), m.cols(st), m.line(en), m.cols(en)), json!({"text": s, "span": [st, en], "api": "NonStreamingLexer"}));
                    }
                }
            }
        }
        // the diagnostics formatter used for build-time error messages: "<msg> at <path>:<line>:<col>"
        {
            let fmt = lrpar::diagnostics::SpannedDiagnosticFormatter::new(s, std::path::Path::new("f.y"));
            match guarded(|| fmt.file_location_msg("E", Some(Span::new(st, st)))) {
                Err(p) => out.violate("panic", &["diagnostics"], format!("file_location_msg panicked: {p}"), json!({"text": s, "offset": st})),
                Ok(txt) => {
                    out.evals += 1;
                    out.count("diagnostics_locations_checked", 1);
                    if !m.cols(st).iter().any(|c| txt == format!("E at f.y:{}:{}", m.line(st), c)) {
                        out.violate("pp-mismatch", &["diagnostics"], format!("file_location_msg = {txt:?}, expected line {} column {:?}", m.line(st), m.cols(st)), json!({"text": s, "offset": st}));
                    }
                }
            }
            // underline rendering: every span of the short exhaustive texts; for longer texts the spans
            // starting at every third offset that cover up to five characters, plus a few long ones
            let mut ens: Vec<usize> = if all_chunkings {
                bs[i..].to_vec()
            } else if i % 3 == 0 {
                bs[i..].iter().take(6).cloned().collect()
            } else {
                vec![]
            };
            if !all_chunkings && i % 5 == 0 {
                for _ in 0..3 {
                    ens.push(bs[i + rng.below(bs.len() - i)]);
                }
            }
            for en in ens {
                match guarded(|| fmt.underline_span_with_text(Span::new(st, en), "msg".to_string(), '^')) {
                    Err(p) => out.violate("panic", &["diagnostics"], format!("underline_span_with_text({st}..{en}) panicked: {p}"), json!({"text": s, "span": [st, en]})),
                    Ok(txt) => {
                        out.evals += 1;
                        let want = model_underline(&m, st, en, "msg");
                        if m.line(st) != m.line(en) {
                            out.count("diagnostics_multi_line_underlines", 1);
                            if m.line(st).to_string().len() != m.line(en).to_string().len() {
                                out.count("diagnostics_underlines_across_a_digit_boundary", 1);
                            }
                        }
                        if !want.contains(&txt) {
                            out.violate("underline-mismatch", &["diagnostics"], format!("underline_span_with_text({st}..{en}) rendered {txt:?}, expected {:?}", want), json!({"text": s, "span": [st, en]}));
                        }
                    }
                }
                out.count("diagnostics_underlines_rendered", 1);
            }
        }
        // error pretty-printing of a lexing error placed at `st`
        let e: LexParseError<u32, DefaultLexerTypes<u32>> = LexParseError::LexError(LRLexError::new(Span::new(st, st)));
        match guarded(|| e.pp(&lexer, &|_| None)) {
            Err(p) => out.violate("panic", &["pp"], format!("LexParseError::pp panicked: {p}"), json!({"text": s, "offset": st})),
            Ok(txt) => {
                out.evals += 1;
                out.count("pp_checked", 1);
                let ok = m.cols(st).iter().any(|c| txt == format!("Lexing error at line {} column {}.", m.line(st), c));
                if !ok {
                    out.violate("pp-mismatch", &[], format!("pp = {txt:?}, expected line {} column {:?}", m.line(st), m.cols(st)), json!({"text": s, "offset": st}));
                }
            }
        }
    }
    // through a real lexer definition: the NewlineCache of a lexer produced by LRNonStreamingLexerDef::lexer
    // must describe exactly the input, whether lexing ran to the end, stopped at an unmatched character
    // (here: 'é', '♠', ...) or at a named rule that has no token id (here: digits)
    LEXDEF.with(|ld| {
        let lexer = match guarded(|| ld.lexer(s)) {
            Ok(l) => l,
            Err(p) => {
                out.violate("panic", &["lexerdef"], format!("LRNonStreamingLexerDef::lexer panicked: {p}"), json!({"text": s}));
                return;
            }
        };
        let stopped_early = lexer.iter().any(|l| l.is_err());
        if stopped_early {
            out.count("lexerdef_inputs_with_a_lexing_error", 1);
        }
        if s.chars().any(|c| c.is_ascii_digit()) {
            out.count("lexerdef_inputs_with_an_unmapped_token", 1);
        }
        let pairs: Vec<(usize, usize)> = if all_chunkings {
            bs.iter().enumerate().flat_map(|(i, &a)| bs[i..].iter().map(move |&b| (a, b))).collect()
        } else {
            (0..60).map(|_| { let a = rng.below(bs.len()); let b = a + rng.below(bs.len() - a); (bs[a], bs[b]) }).collect()
        };
        for (st, en) in pairs {
            out.evals += 1;
            out.count("lexerdef_spans", 1);
            let (exp_st, exp_ens) = m.span_lines(st, en);
            match guarded(|| (lexer.span_lines_str(Span::new(st, en)).to_string(), lexer.line_col(Span::new(st, en)))) {
                Err(p) => out.violate("span-lines-panic", &["lexerdef"], format!("lexer (from a lexer definition) span_lines_str/line_col({st}..{en}) panicked: {p}"), json!({"text": s, "span": [st, en], "api": "LRNonStreamingLexerDef::lexer"})),
                Ok((txt, ((l1, c1), (l2, c2)))) => {
                    if !exp_ens.iter().any(|e| txt == s[exp_st..*e]) {
                        out.violate("span-lines-wrong", &["lexerdef"], format!("span_lines_str({st}..{en}) = {txt:?}, expected one of {:?}", exp_ens.iter().map(|e| &s[exp_st..*e]).collect::<Vec<_>>()), json!({"text": s, "span": [st, en], "api": "LRNonStreamingLexerDef::lexer"}));
                    }
                    if l1 != m.line(st) || !m.cols(st).contains(&c1) || l2 != m.line(en) || !m.cols(en).contains(&c2) {
                        out.violate("column-mismatch", &["lexerdef"], format!("line_col({st}..{en}) = (({l1},{c1}),({l2},{c2})), expected (({},{:?}),({},{:?}))", m.line(st), m.cols(st), m.line(en), m.cols(en)), json!({"text": s, "span": [st, en], "api": "LRNonStreamingLexerDef::lexer"}));
                    }
                }
            }
        }
    });
    if has_nl {
        out.nontrivial(hash_str(s));
    }
}

/// Many short lines (12-20, or just over 100), so that multi-line spans cross the 9/10 and 99/100
/// line-number boundaries.
fn many_lines_text(rng: &mut Rng) -> String {
    let n = if rng.chance(1, 5) { rng.range(99, 108) } else { rng.range(9, 20) };
    let mut s = String::new();
    let pool = ["a", "bc", "é", " ", "x", "日", ""];
    for _ in 0..n {
        for _ in 0..rng.below(4) {
            s.push_str(pool[rng.below(pool.len())]);
        }
        s.push_str(if rng.chance(1, 5) { "\r\n" } else { "\n" });
    }
    if rng.chance(1, 2) {
        s.push_str("end");
    }
    s
}

fn random_text(rng: &mut Rng) -> String {
    let n = rng.range(5, 60);
    let mut s = String::new();
    let pool = ["a", "bc", "é", "♠", "\n", "\r\n", "\r", " ", "\n\n", "x", "𝄞", "日本", "\u{200b}", "e\u{301}", "42"];
    let w = [6, 4, 3, 2, 6, 4, 1, 4, 2, 5, 1, 3, 2, 2, 3];
    for _ in 0..n {
        s.push_str(pool[rng.weighted(&w)]);
    }
    s
}

impl Check for C19 {
    fn id(&self) -> &'static str {
        "C19"
    }
    fn ncases(&self, tier: Tier) -> u64 {
        n_exh_cases(tier) + n_rand_cases(tier)
    }
    fn rule(&self) -> &'static str {
        "exhaustive: every string of length <= L over {a, é, ♠, LF, CR, space, 7} (L=4 quick, 6 thorough) x every chunking into <= 3 feeds (with lookups between the feeds, judged against the prefix as a text of its own) x every char-boundary offset x every char-boundary span, through NewlineCache, NonStreamingLexer::{line_col,span_lines_str} (on a hand-made lexer and on the lexer that a real lexer definition produces for the text - including texts on which lexing stops at an unmatched character or at a named rule without token id), LexParseError::pp (lexing errors at every offset, parse errors at lexemes covering every span) and lrpar::diagnostics::SpannedDiagnosticFormatter::{file_location_msg at every offset, underline_span_with_text against a reference rendering: all spans of the exhaustive texts, sampled spans of the longer ones}; plus random longer texts (5-60 pieces incl. CRLF, 4-byte, double-width, zero-width and combining chars; every third one has 9-20 or ~100 short lines so that spans cross the 9/10 and 99/100 line-number boundaries) with random chunkings. Non-trivial = text contains at least one LF; distinct by text."
    }
    fn assumptions(&self) -> Vec<&'static str> {
        vec![
            "column of the LF in a CR LF pair: both 'same as the CR' and 'one more' are accepted",
            "line_col of a span must end where line_col of the empty span at the same offset starts",
            "underline rendering: display widths come from the unicode-width crate (the same one the formatter uses); the layout is the harness's own model",
            "lines-of-span end: both 'end of the line holding the last byte' and 'end of the line holding offset span.end()' are accepted (the repo's tests pin the second)",
        ]
    }
    fn floor(&self, tier: Tier) -> u64 {
        tier.sz(500, 20000)
    }
    fn required_counters(&self, _tier: Tier) -> Vec<&'static str> {
        vec!["spans_ending_at_line_start", "spans_ending_at_text_end", "empty_spans", "multi_line_spans", "crlf_columns", "pp_checked", "pp_parse_errors_at_nonempty_lexemes", "lexerdef_spans", "lexerdef_inputs_with_a_lexing_error", "lexerdef_inputs_with_an_unmapped_token", "diagnostics_locations_checked", "diagnostics_multi_line_underlines", "diagnostics_underlines_across_a_digit_boundary"]
    }
    fn extra_coverage(&self, tier: Tier, c: &BTreeMap<String, u64>) -> Map<String, Value> {
        let mut m = Map::new();
        let l = exhaustive_len(tier);
        m.insert("exhaustive".into(), json!(c.get("exhaustive_texts").copied().unwrap_or(0) == space_size(l)));
        m.insert("exhaustive_space".into(), json!(format!("all {} strings of length <= {} over a 7-symbol alphabet", space_size(l), l)));
        m
    }
    fn run_case(&self, seed: u64, idx: u64, tier: Tier) -> CaseOut {
        let mut out = CaseOut::new();
        let ne = n_exh_cases(tier);
        let mut rng = Rng::derive(seed, "C19", idx, 0);
        if idx < ne {
            // slice of the exhaustive space (independent of the seed)
            let l = exhaustive_len(tier);
            let tot = space_size(l);
            let mut i = idx;
            let mut sample = None;
            while i < tot {
                let s = nth_text(i, l).unwrap();
                check_text(&s, true, &mut rng, &mut out);
                out.count("exhaustive_texts", 1);
                if sample.is_none() && s.len() >= l && s.contains('\n') {
                    sample = Some(s);
                }
                i += ne;
            }
            out.sample = sample.map(|s| json!({"text": s, "mode": "exhaustive chunkings/offsets/spans"}));
        } else {
            let k = tier.sz(12, 60);
            for j in 0..k {
                let s = if j % 3 == 2 { many_lines_text(&mut rng) } else { random_text(&mut rng) };
                check_text(&s, false, &mut rng, &mut out);
                out.count("random_texts", 1);
                if j == 0 {
                    out.sample = Some(json!({"text": s, "mode": "random text, 5 chunkings, all offsets and spans"}));
                }
            }
        }
        out
    }
}

//! C08 — actions run once per reduction, bottom-up, with child values and matched span.
//! The action closures are the probes: each invocation appends an event to a log; the log is
//! checked offline against the production table and the final tree.

use crate::ag::*;
use crate::frame::*;
use crate::lrx::*;
use crate::rec::gen_rec_case;
use crate::refs::*;
use crate::rng::{hash_str, Rng};
use cfgrammar::{PIdx, RIdx, Span, Symbol, TIdx};
use lrpar::parser::AStackType;
use lrpar::{Lexeme, NonStreamingLexer, RTParserBuilder, RecoveryKind};
use serde_json::json;
use std::cell::RefCell;

pub struct C08;

#[derive(Clone, Debug)]
enum Arg {
    Lex(Lx),
    Val(usize),
}

#[derive(Clone, Debug)]
struct Event {
    pidx: u32,
    ridx: u32,
    span: (usize, usize),
    args: Vec<Arg>,
    param: u64,
}

#[derive(Debug)]
struct Val {
    id: usize,
}

const PARAM: u64 = 0xC0FFEE;

/// (first, last) lexeme leaves of the subtree of event `e`, in order, plus whether an
/// empty-yield nonterminal precedes the first lexeme / follows the last one
struct Yield {
    leaves: Vec<Lx>,
    empty_before_first: bool,
}

fn subtree_yield(log: &[Event], id: usize, out: &mut Yield) {
    for a in &log[id].args {
        match a {
            Arg::Lex(l) => out.leaves.push(*l),
            Arg::Val(v) => {
                let before = out.leaves.len();
                subtree_yield(log, *v, out);
                if out.leaves.is_empty() && before == 0 {
                    // that child derived nothing and nothing was derived before it
                    out.empty_before_first = true;
                }
            }
        }
    }
    if log[id].args.is_empty() && out.leaves.is_empty() {
        out.empty_before_first = true;
    }
}

fn tree_of(log: &[Event], id: usize) -> Tree {
    Tree::Nonterm {
        ridx: log[id].ridx,
        kids: log[id]
            .args
            .iter()
            .map(|a| match a {
                Arg::Lex(l) => term_of(*l),
                Arg::Val(v) => tree_of(log, *v),
            })
            .collect(),
    }
}

fn postorder(log: &[Event], id: usize, out: &mut Vec<usize>) {
    for a in &log[id].args {
        if let Arg::Val(v) = a {
            postorder(log, *v, out);
        }
    }
    out.push(id);
}

type AFD<'a, 'b, 'i> = dyn Fn(RIdx<u32>, &'b dyn NonStreamingLexer<'i, LT>, Span, std::vec::Drain<AStackType<Lx, Val>>, u64) -> Val + 'a;

fn run_actions<'a, 'b: 'a, 'i: 'b>(
    grm: &'a cfgrammar::yacc::YaccGrammar<u32>,
    st: &'a lrtable::StateTable<u32>,
    lexer: &'b dyn NonStreamingLexer<'i, LT>,
    nprods: usize,
    recov: bool,
    cost: &'a dyn Fn(TIdx<u32>) -> u8,
    log: &'a RefCell<Vec<Event>>,
) -> Result<(Option<Val>, Vec<PErr>), String> {
    let mut boxed: Vec<Box<AFD<'a, 'b, 'i>>> = Vec::with_capacity(nprods);
    for p in 0..nprods {
        boxed.push(Box::new(move |ridx, _lexer, span, args, param| {
            let mut l = log.borrow_mut();
            let id = l.len();
            let args: Vec<Arg> = args
                .map(|a| match a {
                    AStackType::Lexeme(lx) => Arg::Lex(lx),
                    AStackType::ActionType(v) => Arg::Val(v.id),
                })
                .collect();
            l.push(Event { pidx: p as u32, ridx: u32::from(ridx), span: (span.start(), span.end()), args, param });
            Val { id }
        }));
    }
    let refs: Vec<&AFD<'a, 'b, 'i>> = boxed.iter().map(|f| &**f).collect();
    lrpar::verif::set_recovery_budget_ms(Some(3_600_000));
    lrpar::verif::set_recovery_step_budget(Some(4000));
    // (costs set BEFORE the recoverer here; parse_tree uses either order)
    let pb = RTParserBuilder::<u32, LT>::new(grm, st).term_costs(cost).recoverer(if recov { RecoveryKind::CPCTPlus } else { RecoveryKind::None });
    let r = guarded(|| pb.parse_actions(lexer, &refs, PARAM));
    lrpar::verif::set_recovery_budget_ms(None);
    lrpar::verif::set_recovery_step_budget(None);
    r
}

impl Check for C08 {
    fn id(&self) -> &'static str {
        "C08"
    }
    fn ncases(&self, tier: Tier) -> u64 {
        tier.sz(3200, 60000)
    }
    fn rule(&self) -> &'static str {
        "per case one generated grammar (nullable-heavy half of the time: empty alternatives first/middle/last, chains of empties, empty start) and 8 inputs over a synthetic text with gaps (so 'end of previous lexeme' != 'start of next lexeme'); parse_actions with one logging closure per production, recovery off and CPCT+ on; offline log checker: each value produced once and consumed at most once, rule/arity/argument kinds match the production, log order == post-order of the final tree, span == [start of first derived lexeme, end of last] (zero-length if none), param passed through, action-built tree == parse_map tree. Non-trivial = parse with >= 1 reduction that derives no lexeme; distinct by (grammar, input)."
    }
    fn assumptions(&self) -> Vec<&'static str> {
        vec![
            "inserted (zero-length, faulty) lexemes count as lexemes; when one is the first or last lexeme of a reduction the span computed from the real lexemes only is accepted as well",
            "the position of a zero-length span is not constrained",
            "tree comparison with parse_map under recovery is only made when both runs chose the same repair sequences (order within a rank is unspecified)",
        ]
    }
    fn floor(&self, tier: Tier) -> u64 {
        tier.sz(1600, 20000)
    }
    fn required_counters(&self, _t: Tier) -> Vec<&'static str> {
        vec!["action_invocations", "empty_yield_reductions", "reductions_with_empty_first_child", "parses_through_repair_replay", "trees_compared_with_parse_map", "spans_checked", "repair_sets_compared_between_modes", "inputs_with_faulty_lexemes_from_the_lexer"]
    }
    fn run_case(&self, seed: u64, idx: u64, _tier: Tier) -> CaseOut {
        let mut out = CaseOut::new();
        let mut rng = Rng::derive(seed, "C08", idx, 0);
        // grammar
        let rc = if rng.chance(1, 2) {
            let mut found = None;
            for _ in 0..30 {
                let mut ag = gen_nullable(&mut rng);
                ag.compact();
                if has_derivation_cycle(&ag) || productive(&ag).iter().any(|x| !*x) {
                    continue;
                }
                let Ok(b) = build_grm(&ag) else { continue };
                let Ok(Ok((sg, st))) = guarded(|| b.table()) else { continue };
                if table_has_reduce_loop(&b.grm, usize::from(sg.all_states_len()), &st) {
                    continue;
                }
                let costs = vec![1u8; ag.tokens.len()];
                found = Some(crate::rec::RecCase { ag, b, st, costs, cost_kind: "all-1" });
                break;
            }
            found
        } else {
            gen_rec_case(&mut rng, false)
        };
        let Some(rc) = rc else {
            out.count("no_suitable_grammar", 1);
            return out;
        };
        let b = &rc.b;
        let grm = &b.grm;
        let gh = hash_str(&rc.ag.normal_form());
        let nprods = usize::from(grm.prods_len());
        for k in 0..8 {
            let recov = k % 2 == 1;
            let inp: Vec<usize> = if recov {
                let ne = rng.range(1, 3);
                crate::rec::gen_bad_input(&mut rng, &rc.ag, 16, ne)
            } else {
                let d = rng.range(1, 8);
                sample_sentence(&rc.ag, &mut rng, rc.ag.start, d).filter(|s| s.len() <= 30).unwrap_or_default()
            };
            let toks: Vec<TIdx<u32>> = inp.iter().map(|t| b.tok[*t]).collect();
            let si = if k >= 6 { out.count("inputs_with_faulty_lexemes_from_the_lexer", 1); syn_input_with_faulty_lexemes(&toks, &mut rng) } else { syn_input(&toks, &mut rng, true) };
            let costs = rc.costs.clone();
            let cost = |t: TIdx<u32>| -> u8 { b.tidx_to_ag[usize::from(t)].map(|a| costs[a]).unwrap_or(1) };
            let detail = |x: String| json!({"grammar": b.src, "input": inp.iter().map(|t| rc.ag.tokens[*t].name.clone()).collect::<Vec<_>>(), "text": si.text, "recovery": recov, "token_costs": rc.ag.tokens.iter().zip(rc.costs.iter()).map(|(t, c)| json!([t.name, c])).collect::<Vec<_>>(), "obs": x});
            // run with logging actions
            let log: RefCell<Vec<Event>> = RefCell::new(vec![]);
            let lexer = si.lexer();
            let t_before = lrpar::verif::timeouts_observed();
            let res = run_actions(grm, &rc.st, &lexer, nprods, recov, &cost, &log);
            out.evals += 1;
            let (val, errs) = match res {
                Ok(x) => x,
                Err(p) => {
                    out.violate("panic", &["parse_actions"], format!("parse_actions panicked: {p}"), detail(String::new()));
                    continue;
                }
            };
            let log = log.into_inner();
            out.count("action_invocations", log.len() as u64);
            if recov && !errs.is_empty() && errs.iter().all(|e| matches!(e, lrpar::LexParseError::ParseError(pe) if !pe.repairs().is_empty())) {
                out.count("parses_through_repair_replay", 1);
            }
            // per-event checks
            let mut consumed = vec![0u32; log.len()];
            let mut has_empty = false;
            for (id, e) in log.iter().enumerate() {
                let p = PIdx(e.pidx);
                if u32::from(grm.prod_to_rule(p)) != e.ridx {
                    out.violate("wrong-rule", &[], format!("action of production {} was called with rule {} (expected {})", e.pidx, e.ridx, u32::from(grm.prod_to_rule(p))), detail(String::new()));
                }
                if e.param != PARAM {
                    out.violate("wrong-param", &[], "the parse parameter was not passed through".into(), detail(String::new()));
                }
                let prod = grm.prod(p);
                if prod.len() != e.args.len() {
                    out.violate("wrong-arity", &[], format!("action of production '{}' received {} arguments", grm.pp_prod(p), e.args.len()), detail(String::new()));
                    continue;
                }
                for (s, a) in prod.iter().zip(e.args.iter()) {
                    let ok = match (s, a) {
                        (Symbol::Token(t), Arg::Lex(l)) => l.tok_id() == u32::from(*t),
                        (Symbol::Rule(r), Arg::Val(v)) => {
                            if *v >= id {
                                false
                            } else {
                                consumed[*v] += 1;
                                log[*v].ridx == u32::from(*r)
                            }
                        }
                        _ => false,
                    };
                    if !ok {
                        out.violate("wrong-argument", &[], format!("action of production '{}' received an argument that does not match its symbol ({:?})", grm.pp_prod(p), a), detail(String::new()));
                    }
                }
                // span
                let mut y = Yield { leaves: vec![], empty_before_first: false };
                subtree_yield(&log, id, &mut y);
                out.count("spans_checked", 1);
                let got = e.span;
                if y.leaves.windows(2).any(|w| w[1].span().start() < w[0].span().end()) {
                    out.violate("lexemes-out-of-order", &[], format!("the lexemes derived by the reduction of '{}' are not in input order: {:?}", grm.pp_prod(p), y.leaves.iter().map(|l| (l.span().start(), l.span().end(), l.faulty())).collect::<Vec<_>>()), detail(String::new()));
                }
                if y.leaves.is_empty() {
                    has_empty = true;
                    out.count("empty_yield_reductions", 1);
                    if got.0 != got.1 {
                        out.violate("span-mismatch", &["reduction_derives_no_lexeme"], format!("reduction of '{}' derived no lexeme but its span is {}..{} (expected zero-length)", grm.pp_prod(p), got.0, got.1), detail(String::new()));
                    }
                } else {
                    if y.empty_before_first {
                        out.count("reductions_with_empty_first_child", 1);
                    }
                    // (inserted lexemes are the zero-length ones; a faulty flag alone - a lexer may hand over faulty lexemes of real length - does not make a lexeme "not matched input")
                    let mut accepted = vec![(y.leaves[0].span().start(), y.leaves[y.leaves.len() - 1].span().end())];
                    let real: Vec<&Lx> = y.leaves.iter().filter(|l| l.span().len() > 0).collect();
                    if real.len() != y.leaves.len() && !real.is_empty() {
                        let alt = (real[0].span().start(), real[real.len() - 1].span().end());
                        accepted.push(alt);
                        accepted.push((accepted[0].0, alt.1));
                        accepted.push((alt.0, accepted[0].1));
                    }
                    // only inserted (zero-length) lexemes were derived: under the real-lexemes reading the
                    // production matched no input, so any zero-length span is accepted
                    let only_inserted_ok = real.is_empty() && got.0 == got.1;
                    if !accepted.contains(&got) && !only_inserted_ok {
                        let tags: Vec<&str> = if y.empty_before_first { vec!["empty_yield_before_first_lexeme"] } else { vec![] };
                        out.violate("span-mismatch", &tags, format!("reduction of '{}' has span {}..{} but derived lexemes {}..{}", grm.pp_prod(p), got.0, got.1, accepted[0].0, accepted[0].1), detail(String::new()));
                    }
                }
            }
            if consumed.iter().any(|c| *c > 1) {
                out.violate("value-consumed-twice", &[], "a value returned by an action was passed to more than one later action".into(), detail(String::new()));
            }
            if has_empty {
                out.nontrivial(gh ^ hash_str(&format!("{inp:?}")));
            }
            // final value
            if let Some(v) = &val {
                if v.id + 1 != log.len() {
                    out.violate("final-value-not-last", &[], "the returned value is not the value of the last action invoked".into(), detail(String::new()));
                } else {
                    let mut po = vec![];
                    postorder(&log, v.id, &mut po);
                    if po != (0..log.len()).collect::<Vec<_>>() {
                        out.violate("not-bottom-up-order", &[], "actions were not invoked in the left-to-right bottom-up order of the final tree (or some invocation's value is not part of the tree)".into(), detail(format!("post-order of value ids: {po:?}")));
                    }
                    // same tree as the generic parse-tree mode
                    let t_actions = tree_of(&log, v.id);
                    lrpar::verif::set_recovery_budget_ms(Some(3_600_000));
                    lrpar::verif::set_recovery_step_budget(Some(4000));
                    let r2 = guarded(|| parse_tree(grm, &rc.st, &si, if recov { RecoveryKind::CPCTPlus } else { RecoveryKind::None }, &cost));
                    lrpar::verif::set_recovery_budget_ms(None);
                    lrpar::verif::set_recovery_step_budget(None);
                    // the two modes are the same parser with the same settings: the first error's repair SET is the same
                    if let Ok((_, errs2)) = &r2 {
                        if lrpar::verif::timeouts_observed() == t_before {
                            let set_of = |es: &Vec<PErr>| -> Option<std::collections::BTreeSet<String>> { es.first().and_then(|e| match e { lrpar::LexParseError::ParseError(pe) => Some(pe.repairs().iter().map(|s| format!("{s:?}")).collect()), _ => None }) };
                            if let (Some(a), Some(c)) = (set_of(&errs), set_of(errs2)) {
                                out.count("repair_sets_compared_between_modes", 1);
                                if a != c {
                                    out.violate("repair-sets-differ-between-modes", &[], format!("the first error's repair sequences differ between the action run ({} sequences) and the generic parse-tree run ({} sequences) of the same builder settings", a.len(), c.len()), detail(format!("actions: {a:?} generic: {c:?}")));
                                }
                            }
                        }
                    }
                    if let Ok((Some(t2), errs2)) = r2 {
                        let firsts = |es: &Vec<PErr>| -> Vec<String> { es.iter().map(|e| match e { lrpar::LexParseError::ParseError(pe) => format!("{:?}", pe.repairs().first()), _ => String::new() }).collect() };
                        if firsts(&errs) == firsts(&errs2) {
                            out.count("trees_compared_with_parse_map", 1);
                            if t2 != t_actions {
                                out.violate("tree-differs-from-generic-mode", &[], "the tree built by actions differs from the generic parse-tree mode's tree".into(), detail(format!("actions: {} generic: {}", t_actions.pp(grm), t2.pp(grm))));
                            }
                        } else {
                            out.count("tree_comparison_skipped_different_repair_choice", 1);
                        }
                    }
                }
            }
            if k == 0 && idx % 97 == 0 {
                out.sample = Some(json!({"grammar": b.src, "family": rc.ag.family, "text": si.text, "events": log.iter().take(8).map(|e| json!({"prod": grm.pp_prod(PIdx(e.pidx)), "span": [e.span.0, e.span.1], "nargs": e.args.len()})).collect::<Vec<_>>()}));
            }
        }
        out
    }
}

//! Helpers for the compile-time builder checks (C13 / C15 / C18): grammars restricted to what
//! `.l` files can name, a matching lexer specification, and running the builders into a directory.

use crate::ag::*;
use crate::rng::Rng;
use crate::yrender::*;
use lrlex::{CTLexerBuilder, DefaultLexerTypes};
use lrpar::RecoveryKind;

/// A decorated grammar whose token names can be written in a `.l` file (no blanks or quotes) and
/// whose kind the compile-time builder supports (not Eco).
pub fn gen_ct_grammar(rng: &mut Rng, allow_eco: bool) -> AG {
    loop {
        let mut g = gen_mixed(rng, true);
        decorate(&mut g, rng);
        if !allow_eco && g.kind == AKind::Eco {
            g.kind = AKind::OriginalGeneric;
            g.implicit_tokens.clear();
            g.compact();
        }
        // action code the builder can really generate Rust for: every rule returns u64
        if matches!(g.kind, AKind::Grmtools | AKind::OriginalUser) {
            g.parse_param = if rng.chance(1, 3) { Some(("p".to_string(), "u64".to_string())) } else { None };
            let has_param = g.parse_param.is_some();
            for r in g.rules.iter_mut() {
                r.actiontype = Some("u64".to_string());
                for p in r.prods.iter_mut() {
                    let n = p.syms.len();
                    p.action = Some(match rng.below(4) {
                        0 => "0".to_string(),
                        1 => "$span.len() as u64".to_string(),
                        2 if has_param => "p + 1".to_string(),
                        _ if n > 0 => format!("{{ let _ = &${}; {} }}", rng.range(1, n), n),
                        _ => "7".to_string(),
                    });
                }
            }
        } else {
            g.parse_param = None;
            for r in g.rules.iter_mut() {
                r.actiontype = None;
                for p in r.prods.iter_mut() {
                    p.action = None;
                }
            }
        }
        for t in g.tokens.iter_mut() {
            if t.name.contains(' ') || t.name.contains('\'') || t.name.contains('"') {
                t.name = t.name.replace([' ', '\'', '"'], "_");
            }
        }
        // names must stay distinct
        let mut names: Vec<&str> = g.tokens.iter().map(|t| t.name.as_str()).collect();
        names.sort();
        names.dedup();
        if names.len() == g.tokens.len() {
            return g;
        }
    }
}

/// Lexeme text used for token `i` of the grammar in inputs.
pub fn lexeme_text(g: &AG, i: usize) -> String {
    let n = &g.tokens[i].name;
    if n.chars().all(|c| c.is_ascii_alphanumeric() || c == '_') && !n.is_empty() {
        format!("{}{}", n.to_lowercase(), i)
    } else {
        format!("tk{i}")
    }
}

/// A `.l` specification with one rule per token of the grammar plus a whitespace skip rule.
pub fn lexer_for(g: &AG) -> String {
    let mut s = String::from("%%\n");
    for (i, t) in g.tokens.iter().enumerate() {
        s.push_str(&format!("{} '{}'\n", lexeme_text(g, i), t.name));
    }
    s.push_str("[ \\t\\n]+ ;\n");
    s
}

#[derive(Clone, Debug)]
pub struct CtSettings {
    pub recoverer: Option<bool>, // Some(true)=CPCTPlus, Some(false)=None
    pub fixed_ints: Option<bool>,
    pub edition: u8, // 0: 2015, 1: 2018, 2: 2021
    pub public: bool,
    pub mod_name: Option<String>,
    pub error_on_conflicts: bool,
}

impl CtSettings {
    pub fn random(rng: &mut Rng) -> CtSettings {
        CtSettings {
            recoverer: *rng.pick(&[None, Some(true), Some(false)]),
            fixed_ints: *rng.pick(&[None, Some(true), Some(false)]),
            edition: rng.below(3) as u8,
            public: rng.chance(1, 2),
            mod_name: if rng.chance(1, 3) { Some(format!("m{}_y", rng.below(3))) } else { None },
            error_on_conflicts: false,
        }
    }
}

/// Run the compile-time builders (lexer + parser) for `grammar`/`lexer` sources in `dir`.
/// Returns Ok((parser_rs_path, lexer_rs_path, regenerated)) or the error text.
pub fn ct_build(dir: &str, kind: AKind, set: &CtSettings) -> Result<(String, String, bool), String> {
    let gp = format!("{dir}/g.y");
    let lp = format!("{dir}/g.l");
    let po = format!("{dir}/out/g.y.rs");
    let lo = format!("{dir}/out/g.l.rs");
    std::fs::create_dir_all(format!("{dir}/out")).map_err(|e| e.to_string())?;
    let set2 = set.clone();
    let po2 = po.clone();
    let gp2 = gp.clone();
    let regenerated = std::sync::Arc::new(std::sync::Mutex::new(None::<bool>));
    let mut lb = CTLexerBuilder::<DefaultLexerTypes<u32>>::new()
        .lrpar_config(move |ctp| {
            let mut ctp = ctp.yacckind(kind.yacckind()).grammar_path(&gp2).output_path(&po2).warnings_are_errors(false).show_warnings(false).error_on_conflicts(set2.error_on_conflicts);
            if let Some(r) = set2.recoverer {
                ctp = ctp.recoverer(if r { RecoveryKind::CPCTPlus } else { RecoveryKind::None });
            }
            if let Some(f) = set2.fixed_ints {
                ctp = ctp.serialisation_format(if f { lrpar::SerialisationFormat::FixedSizeInteger } else { lrpar::SerialisationFormat::VariableSizedInteger });
            }
            ctp = ctp.rust_edition(match set2.edition {
                0 => lrpar::RustEdition::Rust2015,
                1 => lrpar::RustEdition::Rust2018,
                _ => lrpar::RustEdition::Rust2021,
            });
            ctp = ctp.visibility(if set2.public { lrpar::Visibility::Public } else { lrpar::Visibility::Private });
            ctp
        })
        .lexer_path(&lp)
        .output_path(&lo)
        .allow_missing_terms_in_lexer(true)
        .allow_missing_tokens_in_parser(true)
        .warnings_are_errors(false)
        .show_warnings(false);
    lb = lb.rust_edition(match set.edition {
        0 => lrlex::RustEdition::Rust2015,
        1 => lrlex::RustEdition::Rust2018,
        _ => lrlex::RustEdition::Rust2021,
    });
    lb = lb.visibility(if set.public { lrlex::Visibility::Public } else { lrlex::Visibility::Private });
    let _ = &regenerated;
    match crate::frame::guarded(|| lb.build().map(|_| ()).map_err(|e| format!("{e}"))) {
        Err(p) => Err(format!("PANIC {p}")),
        Ok(Err(e)) => Err(e),
        Ok(Ok(())) => Ok((po, lo, true)),
    }
}

pub fn write_sources(dir: &str, g: &AG, rng: &mut Rng) -> Result<(String, String), String> {
    std::fs::create_dir_all(dir).map_err(|e| e.to_string())?;
    let rd = render_fancy(g, rng, &YOpts { header: false, ..YOpts::plain() });
    let l = lexer_for(g);
    std::fs::write(format!("{dir}/g.y"), &rd.text).map_err(|e| e.to_string())?;
    std::fs::write(format!("{dir}/g.l"), &l).map_err(|e| e.to_string())?;
    Ok((rd.text, l))
}

/// Blank anything in generated code that legitimately differs between builds: the build
/// timestamp value and the scratch directory the sources live in.
pub fn normalise_generated(s: &str, dir: &str) -> String {
    let s = s.replace(dir, "<DIR>");
    let re = regex::Regex::new(r#"BUILD_TIME = \\?"[^"\\]*\\?""#).unwrap();
    re.replace_all(&s, "BUILD_TIME = <T>").to_string()
}

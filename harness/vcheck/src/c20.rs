//! C20 — results are independent of index storage width; too-small widths are refused cleanly.
//! Boundary enumeration: grammars/lexers whose rule / token / production / symbols-per-production /
//! state counts sit within a few of 255 (and, at grammar level, 65535) are built with u8, u16 and
//! u32; accepted builds must dump identically to the u32 build, refusals must be the documented panic.

use crate::dump::*;
use crate::frame::*;
use crate::rng::hash_str;
use cfgrammar::yacc::{YaccGrammar, YaccKind, YaccOriginalActionKind};
use lrlex::{DefaultLexerTypes, LRNonStreamingLexerDef, LexerDef};
use lrtable::{from_yacc, Minimiser};
use num_traits::AsPrimitive;
use serde_json::json;

pub struct C20;

#[derive(Clone, Debug)]
struct Spec {
    dim: &'static str,
    count: usize,
    kind: &'static str, // "orig" | "eco"
    table: bool,
    src: String,
    /// inputs as token names
    inputs: Vec<Vec<String>>,
}

fn gen_spec(dim: &'static str, count: usize, eco: bool) -> Spec {
    let mut s = String::new();
    let mut inputs: Vec<Vec<String>> = vec![];
    let mut table = true;
    if eco {
        s.push_str("%implicit_tokens 'w1' 'w2'\n");
    }
    match dim {
        "rules" => {
            // `count` user rules: R0: R1 ; R1: R2 ; ... ; Rn-1: 'a'
            s.push_str("%start R0\n%%\n");
            for i in 0..count {
                if i + 1 < count {
                    s.push_str(&format!("R{i}: R{} | 'a' R{};\n", i + 1, i + 1));
                } else {
                    s.push_str(&format!("R{i}: 'a';\n"));
                }
            }
            inputs.push(vec!["a".into()]);
            inputs.push(vec!["a".into(), "a".into()]);
            inputs.push(vec![]);
        }
        "tokens" => {
            s.push_str("%start S\n%%\nS: T | S T;\nT: ");
            for i in 0..count {
                if i > 0 {
                    s.push_str(" | ");
                }
                s.push_str(&format!("'t{i}'"));
            }
            s.push_str(";\n");
            inputs.push(vec!["t0".into(), format!("t{}", count - 1)]);
            inputs.push(vec![format!("t{}", count - 1), format!("t{}", count / 2)]);
            inputs.push(vec![]);
        }
        "tokens-fewprods" => {
            // `count` tokens but only 3 productions (so that only the token guard can refuse)
            s.push_str("%start S\n%%\nS: ");
            let per = count.div_ceil(3);
            for k in 0..3 {
                if k > 0 {
                    s.push_str(" | ");
                }
                for i in (k * per)..((k + 1) * per).min(count) {
                    s.push_str(&format!("'t{i}' "));
                }
            }
            s.push_str(";\n");
            inputs.push((0..per.min(count)).map(|i| format!("t{i}")).collect());
            inputs.push(vec![format!("t{}", count - 1)]);
        }
        "prods" => {
            // `count` source productions over 3 tokens
            s.push_str("%start S\n%%\nS: ");
            let mut n = 0;
            let toks = ["a", "b", "c"];
            let mut len = 1;
            'o: loop {
                // all strings of length `len` over toks
                let total = 3usize.pow(len as u32);
                for k in 0..total {
                    if n == count {
                        break 'o;
                    }
                    if n > 0 {
                        s.push_str(" | ");
                    }
                    let mut x = k;
                    for _ in 0..len {
                        s.push_str(&format!("'{}' ", toks[x % 3]));
                        x /= 3;
                    }
                    n += 1;
                }
                len += 1;
            }
            s.push_str(";\n");
            inputs.push(vec!["a".into()]);
            inputs.push(vec!["c".into(), "b".into()]);
            inputs.push(vec!["a".into(), "a".into(), "a".into(), "a".into(), "a".into(), "a".into(), "a".into()]);
        }
        "syms" => {
            // one production with `count` symbols
            s.push_str("%start S\n%%\nS: ");
            for i in 0..count {
                s.push_str(if i % 2 == 0 { "'a' " } else { "'b' " });
            }
            s.push_str(";\n");
            let sent: Vec<String> = (0..count).map(|i| if i % 2 == 0 { "a".to_string() } else { "b".to_string() }).collect();
            inputs.push(sent.clone());
            inputs.push(sent[..count / 2].to_vec());
            // for the u16 boundary only the grammar level is built
            table = count < 2000;
        }
        "states" => {
            // about `count` states: a chain production with count-2 symbols gives count states
            // (start, one per symbol, plus the accepting state)
            let k = count.saturating_sub(2).max(1);
            s.push_str("%start S\n%%\nS: ");
            for i in 0..k {
                s.push_str(&format!("'t{}' ", i % 200));
            }
            s.push_str(";\n");
            let sent: Vec<String> = (0..k).map(|i| format!("t{}", i % 200)).collect();
            inputs.push(sent.clone());
            inputs.push(sent[..k / 3].to_vec());
        }
        _ => unreachable!(),
    }
    Spec { dim, count, kind: if eco { "eco" } else { "orig" }, table, src: s, inputs }
}

/// (raw dump, sizes, dump with canonically renumbered states)
fn build_and_dump<T: St>(yk: YaccKind, sp: &Spec, via_ast: bool) -> Result<(String, String, String), String>
where
    usize: AsPrimitive<T>,
    T: TryFrom<usize>,
{
    guarded(|| {
        // two public routes to a grammar: from the text, or from an already validated AST (what
        // nimbleparse and the compile-time builder use)
        let grm = if via_ast {
            let ast = cfgrammar::yacc::ast::ASTWithValidityInfo::new(yk, &sp.src);
            YaccGrammar::<T>::new_from_ast_with_validity_info(&ast).map_err(|e| format!("grammar rejected: {e:?}")).unwrap()
        } else {
            YaccGrammar::<T>::new_with_storaget(yk, &sp.src).map_err(|e| format!("grammar rejected: {e:?}")).unwrap()
        };
        let mut d = dump_grm(&grm);
        let mut canon = d.clone();
        let mut sizes = format!("rules={} prods={} tokens={}", usize::from(grm.rules_len()), usize::from(grm.prods_len()), usize::from(grm.tokens_len()));
        if sp.table {
            let (sg, st) = from_yacc(&grm, Minimiser::Pager).map_err(|e| format!("{e}")).unwrap();
            let n = usize::from(sg.all_states_len());
            sizes.push_str(&format!(" states={n}"));
            d.push_str(&dump_graph(&sg));
            d.push_str(&dump_table(&grm, n, &st, true));
            canon.push_str(&dump_canonical(&grm, &sg, &st));
            let map = canonical_state_order(&sg);
            for inp in &sp.inputs {
                let toks: Vec<usize> = inp.iter().filter_map(|nm| grm.token_idx(nm).map(usize::from)).collect();
                d.push_str(&parse_dump(&grm, &st, &toks, false));
                d.push('\n');
                canon.push_str(&parse_dump_mapped(&grm, &st, &toks, false, Some(&map)));
                canon.push('\n');
                if inp.len() < 40 {
                    d.push_str(&parse_dump(&grm, &st, &toks, true));
                    d.push('\n');
                    canon.push_str(&parse_dump_mapped(&grm, &st, &toks, true, Some(&map)));
                    canon.push('\n');
                }
            }
        }
        (d, sizes, canon)
    })
}

fn documented_refusal(msg: &str) -> bool {
    msg.contains("not big enough") || msg.contains("exceeds the type's maximum value")
}

fn lex_spec(nrules: usize, mode: &str) -> String {
    let mut s = String::from("%%\n");
    for i in 0..nrules {
        let named = match mode {
            "lexrules-named" => true,
            "lexrules-mixed" => i % 2 == 0,
            // only the first 250 rules are named: everything at or past the u8 limit is a skip rule
            _ => i < 250,
        };
        if named {
            s.push_str(&format!("r{i}x 'T{i}'\n"));
        } else {
            s.push_str(&format!("r{i}x ;\n"));
        }
    }
    s
}

fn lex_dump<T: St>(src: &str, probe: &str) -> Result<String, String>
where
    usize: AsPrimitive<T>,
    T: TryFrom<usize>,
{
    guarded(|| {
        let ld = LRNonStreamingLexerDef::<DefaultLexerTypes<T>>::from_str(src).map_err(|e| format!("{e:?}")).unwrap();
        let mut o = String::new();
        for r in ld.iter_rules() {
            o.push_str(&format!("{:?}={:?};", r.name(), r.tok_id().map(|t| t.to_usize().unwrap())));
        }
        use lrpar::{Lexeme, Lexer};
        let lx = ld.lexer(probe);
        for l in lx.iter() {
            match l {
                Ok(l) => o.push_str(&format!("[{}@{}]", l.tok_id().to_usize().unwrap(), l.span().start())),
                Err(_) => o.push_str("[err]"),
            }
        }
        o
    })
}

fn plan(tier: Tier) -> Vec<(&'static str, usize, bool)> {
    // (dimension, count, eco)
    let mut v = vec![];
    for dim in ["rules", "tokens", "prods", "syms", "states"] {
        for c in 250..=259 {
            v.push((dim, c, false));
            if dim == "rules" || dim == "tokens" || dim == "syms" {
                v.push((dim, c, true));
            }
        }
        for c in [1usize, 2, 3, 120, 127, 128, 129, 300, 511, 512] {
            v.push((dim, c, false));
        }
    }
    // u16 boundary at the grammar level (and at table level for states, thorough only)
    for dim in ["rules", "tokens", "prods", "syms"] {
        for c in [65532usize, 65533, 65534, 65535, 65536, 65537] {
            if tier == Tier::Thorough || c % 2 == 0 || dim == "rules" {
                v.push((dim, c, false));
            }
        }
    }
    if tier == Tier::Thorough {
        for c in [65533usize, 65534, 65535, 65536, 65537] {
            v.push(("states", c, false));
        }
        v.push(("rules", 65534, true));
        v.push(("rules", 65535, true));
    }
    // lexers
    for c in 253..=259 {
        v.push(("lexrules-named", c, false));
        v.push(("lexrules-mixed", c, false));
        v.push(("lexrules-tail-unnamed", c, false));
    }
    for c in 250..=262 {
        v.push(("tokens-fewprods", c, false));
    }
    v
}

impl Check for C20 {
    fn id(&self) -> &'static str {
        "C20"
    }
    fn ncases(&self, tier: Tier) -> u64 {
        plan(tier).len() as u64
    }
    fn rule(&self) -> &'static str {
        "boundary enumeration (not random): for each dimension in {user rules, tokens, productions, symbols in one production, states, lexer rules (all named / every other unnamed)} and each count in 250..259, a few small/medium counts, and 65532..65537 at the grammar level (states at 65533..65537 at table level in thorough), with and without Eco %implicit_tokens (which adds rules and symbols after the size guards): build with u32 (reference), u16 and u8 under catch_unwind; an accepted build must produce exactly the u32 build's canonical dump (numbering, sizes, state graph, every table cell and query, parse results with recovery off and on); a refused build must panic with the documented 'not big enough' / 'exceeds the type's maximum value' message. Non-trivial = count within 2 of a width limit; distinct by (dimension, count, width, syntax)."
    }
    fn assumptions(&self) -> Vec<&'static str> {
        vec!["u32 is the reference; u16 table-level runs near 65535 states only in the thorough tier (Pager's candidate scans make them slow)"]
    }
    fn floor(&self, _tier: Tier) -> u64 {
        60
    }
    fn required_counters(&self, _t: Tier) -> Vec<&'static str> {
        vec!["accepted_u8", "refused_u8", "accepted_u16", "refused_u16", "lexers_accepted_u8", "lexers_refused_u8", "dumps_compared", "builds_through_the_ast_entry_point"]
    }
    fn case_cap_s(&self, tier: Tier) -> u64 {
        tier.sz(120, 1500)
    }
    fn max_workers(&self) -> usize {
        8
    }
    fn run_case(&self, _seed: u64, idx: u64, tier: Tier) -> CaseOut {
        let mut out = CaseOut::new();
        let (dim, count, eco) = plan(tier)[idx as usize];
        let near = |c: usize| (253..=257).contains(&c) || (65533..=65537).contains(&c);
        if dim.starts_with("lexrules") {
            let src = lex_spec(count, dim);
            let probe = format!("r0xr{}xr{}x", count - 1, count / 2);
            let reference = match lex_dump::<u32>(&src, &probe) {
                Ok(d) => d,
                Err(p) => {
                    out.violate("reference-build-failed", &["harness"], format!("u32 lexer build failed: {p}"), json!({"dim": dim, "count": count}));
                    return out;
                }
            };
            for (w, r) in [("u8", lex_dump::<u8>(&src, &probe)), ("u16", lex_dump::<u16>(&src, &probe))] {
                out.evals += 1;
                match r {
                    Ok(d) => {
                        out.count(&format!("lexers_accepted_{w}"), 1);
                        out.count("dumps_compared", 1);
                        if d != reference {
                            out.violate("width-dependent-result", &[], format!("lexer with {count} rules built with {w} differs from the u32 build (token ids wrapped?)"), json!({"dim": dim, "count": count, "width": w, "got": d.chars().rev().take(300).collect::<String>().chars().rev().collect::<String>(), "want": reference.chars().rev().take(300).collect::<String>().chars().rev().collect::<String>()}));
                        }
                    }
                    Err(p) => {
                        out.count(&format!("lexers_refused_{w}"), 1);
                        if !documented_refusal(&p) {
                            out.violate("undocumented-refusal", &[], format!("lexer with {count} rules, {w}: refused with an undocumented panic: {p}"), json!({"dim": dim, "count": count, "width": w}));
                        }
                    }
                }
                if near(count) {
                    out.nontrivial(hash_str(&format!("{dim}{count}{w}")));
                }
            }
            out.sample = Some(json!({"dimension": dim, "count": count}));
            return out;
        }
        let sp = gen_spec(dim, count, eco);
        let yk = if eco { YaccKind::Eco } else { YaccKind::Original(YaccOriginalActionKind::GenericParseTree) };
        let big = count > 2000;
        let sp = if big && dim != "states" { Spec { table: false, ..sp } } else { sp };
        let (reference, rsizes, rcanon) = match build_and_dump::<u32>(yk, &sp, false) {
            Ok(d) => d,
            Err(p) => {
                out.violate("reference-build-failed", &["harness"], format!("u32 build failed: {p}"), json!({"dim": dim, "count": count, "eco": eco}));
                return out;
            }
        };
        let widths: Vec<&str> = if big { vec!["u16"] } else { vec!["u8", "u16"] };
        let mut builds: Vec<(&str, bool)> = vec![];
        for w in widths {
            builds.push((w, false));
            if !(big && dim == "states") {
                builds.push((w, true));
            }
        }
        for (w, via_ast) in builds {
            out.evals += 1;
            if via_ast {
                out.count("builds_through_the_ast_entry_point", 1);
            }
            let r = if w == "u8" { build_and_dump::<u8>(yk, &sp, via_ast) } else { build_and_dump::<u16>(yk, &sp, via_ast) };
            let detail = |x: String| json!({"dimension": dim, "count": count, "syntax": sp.kind, "width": w, "entry_point": if via_ast { "new_from_ast_with_validity_info" } else { "new_with_storaget" }, "u32_sizes": rsizes, "obs": x, "grammar_head": sp.src.chars().take(200).collect::<String>()});
            match r {
                Ok((d, sizes, canon)) => {
                    out.count(&format!("accepted_{w}"), 1);
                    out.count("dumps_compared", 1);
                    if d != reference && canon == rcanon {
                        // everything agrees once states are renumbered canonically: only the order in
                        // which Pager created (numbered) the states differs between the widths
                        out.count("accepted_builds_differing_only_in_state_numbering", 1);
                        let diff = d.lines().zip(reference.lines()).find(|(a, b)| a != b).map(|(a, b)| format!("{w}: {}\nu32: {}", a.chars().take(200).collect::<String>(), b.chars().take(200).collect::<String>())).unwrap_or_default();
                        out.violate("state-numbering-depends-on-width", &["identical_after_canonical_state_renumbering"], format!("{dim}={count} ({}) built with {w}: states are numbered differently than in the u32 build (same automaton up to renumbering)", sp.kind), detail(diff));
                    } else if d != reference {
                        let diff = d.lines().zip(reference.lines()).find(|(a, b)| a != b).map(|(a, b)| format!("{w}: {}\nu32: {}", a.chars().take(300).collect::<String>(), b.chars().take(300).collect::<String>())).unwrap_or_else(|| "different number of lines".into());
                        let wrapped = sizes != rsizes;
                        // predicate for the known defect: the source counts pass the guards but the added start rule / EOF token / Eco rules push the final count over the limit
                        let tags: Vec<&str> = if wrapped { vec!["reported_sizes_wrapped"] } else { vec![] };
                        out.violate("width-dependent-result", &tags, format!("{dim}={count} ({}) built with {w} is accepted but differs from the u32 build: sizes {sizes} vs {rsizes}", sp.kind), detail(diff));
                    }
                }
                Err(p) => {
                    out.count(&format!("refused_{w}"), 1);
                    if !documented_refusal(&p) {
                        let tags: Vec<&str> = if p.contains("assertion failed") { vec!["assertion_instead_of_documented_refusal"] } else { vec![] };
                        out.violate("undocumented-refusal", &tags, format!("{dim}={count} ({}) with {w}: refused with an undocumented panic: {p}", sp.kind), detail(String::new()));
                    }
                }
            }
            if near(count) {
                out.nontrivial(hash_str(&format!("{dim}{count}{w}{eco}{via_ast}")));
            }
        }
        out.sample = Some(json!({"dimension": dim, "count": count, "syntax": sp.kind, "u32_sizes": rsizes}));
        out
    }
}

//! C06 — repair sequences are the complete minimum-cost set, ranked as documented.
//! Oracle: reference searches over explicit repair sequences (rec::reference_search, exhaustive;
//! rec::reference_search_dag, folded by configuration), cross-checked against each other.

use crate::frame::*;
use crate::lrx::*;
use crate::rec::*;
use crate::rng::{hash_str, Rng};
use cfgrammar::TIdx;
use serde_json::json;
use std::collections::BTreeSet;

pub struct C06;

impl Check for C06 {
    fn id(&self) -> &'static str {
        "C06"
    }
    fn ncases(&self, tier: Tier) -> u64 {
        tier.sz(3000, 30000)
    }
    fn rule(&self) -> &'static str {
        "per case one generated grammar with <= 6 tokens, a token-cost table, a random %avoid_insert set and 5 inputs (<= 14 lexemes) with 1-3 errors; for every reported error whose configuration the replay model reaches: all sequences have equal cost; an exhaustive reference search over explicit Insert/Delete/Shift sequences (no Insert after Delete, never insert end-of-input, success = 3 trailing shifts or acceptance) finds no cheaper repair and exactly the reported set among minimum-cost repairs with best reach (as sets); no trailing shift, no duplicate, %avoid_insert sequences last, shorter first within a group, no inserted end-of-input. Non-trivial = error whose repair set has >= 2 sequences; distinct by (grammar, input, costs, error index)."
    }
    fn assumptions(&self) -> Vec<&'static str> {
        vec![
            "validity of a repair = plain replay from the error configuration (C05's notion); reach measured up to TRY_PARSE_AT_MOST lexemes beyond the error",
            "two reference searches: exhaustive over explicit sequences (capped at 300k nodes and about nine edits) and folded by configuration (stack, position, last-edit-was-delete, trailing shifts; capped at 300k configurations and 3000 unfolded sequences); where both decide they must agree; errors neither decides, and errors found while the step budget had run out, are inconclusive for completeness",
        ]
    }
    fn floor(&self, tier: Tier) -> u64 {
        tier.sz(1500, 10000)
    }
    fn required_counters(&self, _t: Tier) -> Vec<&'static str> {
        vec!["errors_compared", "references_cross_checked", "errors_decided_by_folded_reference_only", "sets_of_size_1", "sets_of_size_2_5", "sets_of_size_6_plus", "avoid_insert_reordered", "ranking_removed_candidates", "large_cost_tables", "long_inputs", "errors_compared_with_ranking_window_inside_input"]
    }
    fn case_cap_s(&self, _t: Tier) -> u64 {
        180
    }
    fn run_case(&self, seed: u64, idx: u64, tier: Tier) -> CaseOut {
        let mut out = CaseOut::new();
        let mut rng = Rng::derive(seed, "C06", idx, 0);
        let Some(rc) = gen_rec_case(&mut rng, true) else {
            out.count("no_suitable_grammar", 1);
            return out;
        };
        let costs = rc.costs.clone();
        let b = &rc.b;
        let cost = |t: TIdx<u32>| -> u8 { b.tidx_to_ag[usize::from(t)].map(|a| costs[a]).unwrap_or(1) };
        if rc.cost_kind.ends_with("200-255") {
            out.count("large_cost_tables", 1);
        }
        let gh = hash_str(&rc.ag.normal_form());
        for k in 0..6 {
            let nerr = rng.range(1, 3);
            let inp = if k == 5 {
                // one long input per case where the grammar allows it: the error is followed by more
                // lexemes than the ranking window holds
                match gen_long_bad_input(&mut rng, &rc.ag) {
                    Some(i) => {
                        out.count("long_inputs", 1);
                        i
                    }
                    None => continue,
                }
            } else {
                gen_bad_input(&mut rng, &rc.ag, tier.sz(12, 14) as usize, nerr)
            };
            let toks: Vec<TIdx<u32>> = inp.iter().map(|t| b.tok[*t]).collect();
            let si = syn_input(&toks, &mut rng, true);
            let detail = |x: String| json!({"grammar": b.src, "input": inp.iter().map(|t| rc.ag.tokens[*t].name.clone()).collect::<Vec<_>>(), "token_costs": rc.ag.tokens.iter().zip(costs.iter()).map(|(t, c)| json!([t.name, c])).collect::<Vec<_>>(), "obs": x});
            let rec = match record_parse(b, &rc.st, &si, &cost, Budget::Steps(tier.sz(10_000, 40_000))) {
                Ok(r) => r,
                Err(p) => {
                    out.violate("panic", &["parse"], format!("parse with recovery panicked: {p}"), detail(String::new()));
                    continue;
                }
            };
            let (_viol, _stats, ctxs) = replay_model(b, &rc.st, &si, &toks, &rec);
            for cx in &ctxs {
                let e = &rec.errors[cx.rec_index];
                out.evals += 1;
                let edetail = |x: String| detail(format!("error #{} at lexeme #{}: reported [{}]; {x}", cx.rec_index, cx.pos, e.repairs.iter().map(|s| pp_seq(&b.grm, s)).collect::<Vec<_>>().join(" | ")));
                // direct clauses on the reported list
                let rep_costs: BTreeSet<u32> = e.repairs.iter().map(|s| seq_cost(b, &toks, &cost, s)).collect();
                if rep_costs.len() > 1 {
                    out.violate("unequal-costs", &[], format!("sequences of one error have different costs {rep_costs:?}"), edetail(String::new()));
                }
                let set: BTreeSet<Vec<Rep>> = e.repairs.iter().cloned().collect();
                if set.len() != e.repairs.len() {
                    out.violate("duplicate-sequence", &[], "a repair sequence is reported twice".into(), edetail(String::new()));
                }
                let eof = u32::from(b.grm.eof_token_idx());
                let has_avoid = |s: &Vec<Rep>| s.iter().any(|r| matches!(r, Rep::Insert(t) if b.grm.avoid_insert(TIdx(*t))));
                for s in &e.repairs {
                    if matches!(s.last(), Some(Rep::Shift(_))) {
                        out.violate("trailing-shift", &[], "a reported sequence ends in a shift".into(), edetail(String::new()));
                    }
                    if s.iter().any(|r| matches!(r, Rep::Insert(t) if *t == eof)) {
                        out.violate("eof-inserted", &[], "a reported sequence inserts the end-of-input token".into(), edetail(String::new()));
                    }
                    if s.is_empty() {
                        out.violate("empty-sequence", &[], "an empty repair sequence is reported".into(), edetail(String::new()));
                    }
                }
                let mut seen_avoid = false;
                let mut prev_len: Option<usize> = None;
                let mut reordered = false;
                for s in &e.repairs {
                    let a = has_avoid(s);
                    if a && !seen_avoid {
                        seen_avoid = true;
                        prev_len = None;
                        if prev_len.is_none() && e.repairs.iter().any(|x| !has_avoid(x)) {
                            reordered = true;
                        }
                    } else if !a && seen_avoid {
                        out.violate("avoid-insert-order", &[], "a sequence without %avoid_insert tokens is listed after one that inserts such a token".into(), edetail(String::new()));
                    }
                    if let Some(pl) = prev_len {
                        if s.len() < pl {
                            out.violate("length-order", &[], "within a group a longer sequence is listed before a shorter one".into(), edetail(String::new()));
                        }
                    }
                    prev_len = Some(s.len());
                }
                if reordered {
                    out.count("avoid_insert_reordered", 1);
                }
                // reference search
                if e.repairs.is_empty() {
                    if rec.timeouts > 0 {
                        out.inconclusive("no repairs reported but the step budget ran out");
                        continue;
                    }
                    // claim: no repair exists at all. First a small cost bound; then, on tables without
                    // resolved conflicts (where the search's and the replay's semantics coincide), the folded
                    // reference up to the search's own cost ceiling (u16): a search that ended without running
                    // out of budget has exhausted the space, so any repair at all refutes the empty list.
                    let bound = 3 * (*costs.iter().min().unwrap_or(&1) as u32).max(1);
                    let conflict_table = rc.st.conflicts().is_some() || !rc.ag.precs.is_empty();
                    match reference_search(b, &rc.st, &toks, &cx.cfg, cx.pos, &cost, bound, 300_000) {
                        RefSearch::Found(c, s, _) => out.violate("missing-repair", &[], format!("no repair sequence reported, but {} repair(s) of cost {c} exist, e.g. [{}]", s.len(), pp_seq(&b.grm, s.iter().next().unwrap())), edetail(String::new())),
                        RefSearch::NoneUpTo(_) => {
                            out.count("empty_sets_confirmed_up_to_bound", 1);
                            if !conflict_table {
                                match reference_search_dag(b, &rc.st, &toks, &cx.cfg, cx.pos, &cost, 60_000, 150_000, 2000) {
                                    RefSearch::Found(c, s, _) => out.violate("missing-repair", &[], format!("no repair sequence reported (and the search did not run out of budget), but {} repair(s) of cost {c} exist, e.g. [{}]", s.len(), pp_seq(&b.grm, s.iter().next().unwrap())), edetail(String::new())),
                                    RefSearch::NoneUpTo(_) => out.count("empty_sets_confirmed_over_whole_space", 1),
                                    RefSearch::Capped => out.count("empty_sets_whole_space_search_capped", 1),
                                }
                            }
                        }
                        RefSearch::Capped => out.inconclusive("reference search exceeded its node cap"),
                    }
                    continue;
                }
                // classify the reported sequences: plain-replay valid or not (the latter is C05's business;
                // here it only explains differences from the reference set)
                let conflict_table = rc.st.conflicts().is_some() || !rc.ag.precs.is_empty();
                let mut bogus: BTreeSet<Vec<Rep>> = BTreeSet::new();
                let mut bogus_all_by_mechanism = true;
                for s in &e.repairs {
                    let ok = match replay_seq(b, &rc.st, &toks, &cx.cfg, cx.pos, s) {
                        Ok((p2, c2)) => {
                            let (sh, acc) = continue_plain(b, &rc.st, &toks, &c2, p2, parse_at_least());
                            acc || sh >= parse_at_least()
                        }
                        Err(_) => false,
                    };
                    if !ok {
                        bogus.insert(s.clone());
                        if !replays_with_reductions_under_real_lookahead(b, &rc.st, &toks, &cx.cfg, cx.pos, s) {
                            bogus_all_by_mechanism = false;
                        }
                    }
                }
                let mech_tags: Vec<&str> = if !bogus.is_empty() && bogus_all_by_mechanism && conflict_table { vec!["valid_only_with_reductions_under_real_lookahead", "table_has_resolved_conflicts"] } else { vec![] };
                let rc_cost = *rep_costs.iter().next().unwrap();
                let min_tok = *costs.iter().min().unwrap_or(&1) as u32;
                // two references with one specification: the exhaustive one over explicit sequences (reach: about
                // nine edits) and the folded one (rec::reference_search_dag; reach: its node cap). Where both decide,
                // they must agree (a disagreement is a fault of this harness, reported as such).
                let within_exhaustive = !((rc_cost / min_tok.max(1)) > 9 || rc_cost > 2600);
                let folded = reference_search_dag(b, &rc.st, &toks, &cx.cfg, cx.pos, &cost, rc_cost, 300_000, 3000);
                let chosen = if within_exhaustive {
                    let ex = reference_search(b, &rc.st, &toks, &cx.cfg, cx.pos, &cost, rc_cost, 300_000);
                    let same = match (&ex, &folded) {
                        (RefSearch::Found(c1, s1, _), RefSearch::Found(c2, s2, _)) => {
                            out.count("references_cross_checked", 1);
                            c1 == c2 && s1 == s2
                        }
                        (RefSearch::NoneUpTo(_), RefSearch::NoneUpTo(_)) => {
                            out.count("references_cross_checked", 1);
                            true
                        }
                        (RefSearch::Capped, _) | (_, RefSearch::Capped) => true,
                        _ => false,
                    };
                    if !same {
                        let d = |r: &RefSearch| match r {
                            RefSearch::Found(c, s, _) => format!("cost {c}: {}", s.iter().map(|q| pp_seq(&b.grm, q)).collect::<Vec<_>>().join(" | ")),
                            RefSearch::NoneUpTo(c) => format!("none up to {c}"),
                            RefSearch::Capped => "capped".into(),
                        };
                        out.violate("reference-disagreement", &["harness"], "the exhaustive and the folded reference searches disagree".into(), edetail(format!("exhaustive: {}; folded: {}", d(&ex), d(&folded))));
                        continue;
                    }
                    if matches!(ex, RefSearch::Capped) { folded } else { ex }
                } else {
                    if !matches!(folded, RefSearch::Capped) {
                        out.count("errors_decided_by_folded_reference_only", 1);
                    }
                    folded
                };
                match chosen {
                    RefSearch::Capped => out.inconclusive("reference search exceeded its node cap"),
                    RefSearch::NoneUpTo(_) => {
                        out.violate("reported-repair-not-found-by-reference", &mech_tags, format!("reference search finds no valid repair of cost <= {rc_cost} although {} were reported", e.repairs.len()), edetail(String::new()));
                    }
                    RefSearch::Found(c, refset, info) => {
                        out.count("errors_compared", 1);
                        if toks.len() > cx.pos + try_parse_at_most() {
                            out.count("errors_compared_with_ranking_window_inside_input", 1);
                        }
                        out.max("reference_nodes", info.nodes as u64);
                        if info.removed_by_ranking > 0 {
                            out.count("ranking_removed_candidates", 1);
                        }
                        match refset.len() {
                            1 => out.count("sets_of_size_1", 1),
                            2..=5 => out.count("sets_of_size_2_5", 1),
                            _ => out.count("sets_of_size_6_plus", 1),
                        }
                        if refset.len() >= 2 {
                            out.nontrivial(gh ^ hash_str(&format!("{inp:?}{costs:?}{}", cx.rec_index)));
                        }
                        if c < rc_cost {
                            out.violate("cheaper-repair-exists", &[], format!("reported cost is {rc_cost} but a valid repair of cost {c} exists: [{}]", pp_seq(&b.grm, refset.iter().next().unwrap())), edetail(String::new()));
                        } else if rec.timeouts > 0 && set != refset {
                            out.inconclusive("repair sets differ but the step budget ran out during this parse");
                        } else {
                            let missing: Vec<&Vec<Rep>> = refset.difference(&set).collect();
                            let extra_all: Vec<&Vec<Rep>> = set.difference(&refset).collect();
                            let extra: Vec<&Vec<Rep>> = extra_all.iter().filter(|s| !bogus.contains(**s)).cloned().collect();
                            let extra_bogus: Vec<&Vec<Rep>> = extra_all.iter().filter(|s| bogus.contains(**s)).cloned().collect();
                            if !extra_bogus.is_empty() {
                                out.violate("extra-repair-not-valid", &mech_tags, format!("{} reported sequence(s) do not repair under plain replay, e.g. [{}]", extra_bogus.len(), pp_seq(&b.grm, extra_bogus[0])), edetail(String::new()));
                            }
                            if !missing.is_empty() {
                                let mut mtags: Vec<&str> = if !mech_tags.is_empty() { vec!["error_also_has_sequences_valid_only_with_reductions_under_real_lookahead", "table_has_resolved_conflicts"] } else { vec![] };
                                if mtags.is_empty() && conflict_table {
                                    // no such sequence was REPORTED; but was each missing one merged, inside the search,
                                    // with one (and dropped with it when the merged group was ranked)?
                                    let verdicts: Vec<Option<bool>> = missing.iter().map(|m| merged_with_search_only_sequence(b, &rc.st, &toks, &cx.cfg, cx.pos, &cost, m, 400_000)).collect();
                                    if verdicts.iter().all(|v| *v == Some(true)) {
                                        mtags = vec!["each_missing_sequence_merges_with_a_sequence_valid_only_with_reductions_under_real_lookahead", "table_has_resolved_conflicts"];
                                    } else if verdicts.iter().all(|v| *v != Some(false)) {
                                        out.inconclusive("repairs missing on a conflict-resolved table; the enumeration deciding whether the known search/replay divergence explains them hit its node cap");
                                        continue;
                                    }
                                }
                                out.violate("missing-repair", &mtags, format!("{} minimum-cost repair(s) with best reach are not reported, e.g. [{}]", missing.len(), pp_seq(&b.grm, missing[0])), edetail(format!("reference set: {}", refset.iter().map(|s| pp_seq(&b.grm, s)).collect::<Vec<_>>().join(" | "))));
                            }
                            if !extra.is_empty() {
                                // plain-valid, minimum cost, but not best reach under plain replay: kept by the ranking
                                // because, under the search's semantics, merged with a best-reach sequence?
                                let etags: Vec<&str> = if conflict_table && extra.iter().all(|x| merges_with_best_reach_sequence(b, &rc.st, &toks, &cx.cfg, cx.pos, x, &refset)) {
                                    vec!["each_extra_sequence_merges_with_a_best_reach_sequence_under_the_search_semantics", "table_has_resolved_conflicts"]
                                } else {
                                    vec![]
                                };
                                out.violate("extra-repair", &etags, format!("{} reported sequence(s) are not in the reference set (not valid, not minimal or not best reach), e.g. [{}]", extra.len(), pp_seq(&b.grm, extra[0])), edetail(format!("reference set: {}", refset.iter().map(|s| pp_seq(&b.grm, s)).collect::<Vec<_>>().join(" | "))));
                            }
                        }
                    }
                }
            }
            if k == 0 && idx % 53 == 0 {
                out.sample = Some(json!({"grammar": b.src, "family": rc.ag.family, "cost_kind": rc.cost_kind, "avoid_insert": rc.ag.avoid_insert.iter().map(|t| rc.ag.tokens[*t].name.clone()).collect::<Vec<_>>(), "input": inp.iter().map(|t| rc.ag.tokens[*t].name.clone()).collect::<Vec<_>>(),
                    "errors": rec.errors.iter().map(|e| json!({"at_lexeme": e.at, "sequences": e.repairs.iter().map(|s| pp_seq(&b.grm, s)).collect::<Vec<_>>()})).collect::<Vec<_>>()}));
            }
        }
        out
    }
}

//! Shared machinery for the error-recovery properties C05 / C06 / C07:
//! recording a recovering parse, the replay model (plain LR over the repaired input), and the
//! reference exhaustive repair search.

use crate::ag::*;
use crate::lrx::*;
use crate::refs::*;
use crate::rng::Rng;
use cfgrammar::TIdx;
use lrpar::{LexParseError, Lexeme, ParseRepair, RecoveryKind};
use lrtable::{StIdx, StateTable};
use std::collections::{BTreeSet, HashSet};

#[derive(Clone, Copy, Debug, PartialEq, Eq, Hash, PartialOrd, Ord)]
pub enum Rep {
    Insert(u32),
    Delete(usize),
    Shift(usize),
}

#[derive(Clone, Debug)]
pub struct ErrRec {
    /// index of the error lexeme among the real lexemes (n = end of input)
    pub at: usize,
    pub stidx: u32,
    pub repairs: Vec<Vec<Rep>>,
}

pub struct ParseRec {
    pub tree: Option<Tree>,
    pub errors: Vec<ErrRec>,
    pub timeouts: u64,
    pub steps: u64,
    pub wall_ms: u128,
    /// problems found while converting the raw result (malformed lexemes etc.)
    pub malformed: Vec<String>,
}

pub fn pp_seq(grm: &cfgrammar::yacc::YaccGrammar<u32>, s: &[Rep]) -> String {
    s.iter()
        .map(|r| match r {
            Rep::Insert(t) => format!("Insert {}", grm.token_name(TIdx(*t)).unwrap_or("$")),
            Rep::Delete(i) => format!("Delete #{i}"),
            Rep::Shift(i) => format!("Shift #{i}"),
        })
        .collect::<Vec<_>>()
        .join(", ")
}

/// Budget policy for a recorded parse.
#[derive(Clone, Copy)]
pub enum Budget {
    /// production behaviour: 500 ms wall clock, no logical budget
    Production,
    /// huge wall budget and a logical step budget (load independent)
    Steps(u64),
    /// a tiny real wall-clock budget and no logical budget: the deadline path of the parser itself
    /// (the stimulus is time dependent, the verdict — the parse returns a well-formed outcome — is not)
    WallMs(u64),
}

pub fn record_parse(b: &Built, st: &StateTable<u32>, si: &SynInput, cost: &dyn Fn(TIdx<u32>) -> u8, budget: Budget) -> Result<ParseRec, String> {
    match budget {
        Budget::Production => {
            lrpar::verif::set_recovery_budget_ms(None);
            lrpar::verif::set_recovery_step_budget(None);
        }
        Budget::Steps(n) => {
            lrpar::verif::set_recovery_budget_ms(Some(3_600_000));
            lrpar::verif::set_recovery_step_budget(Some(n));
        }
        Budget::WallMs(n) => {
            lrpar::verif::set_recovery_budget_ms(Some(n));
            lrpar::verif::set_recovery_step_budget(None);
        }
    }
    let t0 = lrpar::verif::timeouts_observed();
    let s0 = lrpar::verif::steps_used();
    let w0 = std::time::Instant::now();
    let r = crate::frame::guarded(|| parse_tree(&b.grm, st, si, RecoveryKind::CPCTPlus, cost));
    let wall_ms = w0.elapsed().as_millis();
    let timeouts = lrpar::verif::timeouts_observed() - t0;
    let steps = lrpar::verif::steps_used() - s0;
    lrpar::verif::set_recovery_budget_ms(None);
    lrpar::verif::set_recovery_step_budget(None);
    let (tree, errs) = r?;
    let eof = u32::from(b.grm.eof_token_idx());
    let mut malformed = vec![];
    let mut errors = vec![];
    for e in &errs {
        match e {
            LexParseError::LexError(_) => malformed.push("lex error from the synthetic lexer".to_string()),
            LexParseError::ParseError(pe) => {
                let at = match crate::c04::error_index(si, e, eof) {
                    Ok(i) => i,
                    Err(m) => {
                        malformed.push(m);
                        usize::MAX
                    }
                };
                let mut repairs = vec![];
                for seq in pe.repairs() {
                    let mut v = vec![];
                    for r in seq {
                        match r {
                            ParseRepair::Insert(t) => v.push(Rep::Insert(u32::from(*t))),
                            ParseRepair::Delete(l) | ParseRepair::Shift(l) => {
                                let is_del = matches!(r, ParseRepair::Delete(_));
                                match si.index_of_span(l.span()) {
                                    Some(i) if si.lexemes[i] == *l => v.push(if is_del { Rep::Delete(i) } else { Rep::Shift(i) }),
                                    _ => {
                                        malformed.push(format!("repair refers to a lexeme ({}..{}, token {}) that is not an input lexeme", l.span().start(), l.span().end(), l.tok_id()));
                                        v.push(if is_del { Rep::Delete(usize::MAX) } else { Rep::Shift(usize::MAX) });
                                    }
                                }
                            }
                        }
                    }
                    repairs.push(v);
                }
                errors.push(ErrRec { at, stidx: u32::from(pe.stidx()), repairs });
            }
        }
    }
    Ok(ParseRec { tree, errors, timeouts, steps, wall_ms, malformed })
}

pub fn parse_at_least() -> usize {
    lrpar::verif::PARSE_AT_LEAST
}
pub fn try_parse_at_most() -> usize {
    lrpar::verif::TRY_PARSE_AT_MOST
}

/// Validate one repair sequence by plain replay from configuration `cfg` at input position `pos`:
/// Ok(position after the sequence, configuration) or Err(reason).
pub fn replay_seq(b: &Built, st: &StateTable<u32>, toks: &[TIdx<u32>], cfg: &Cfg, pos: usize, seq: &[Rep]) -> Result<(usize, Cfg), String> {
    let mut c = cfg.clone();
    let mut p = pos;
    for (k, r) in seq.iter().enumerate() {
        match r {
            Rep::Insert(t) => {
                if *t == u32::from(b.grm.eof_token_idx()) {
                    return Err("sequence inserts the end-of-input token".into());
                }
                if c.feed(&b.grm, st, TIdx(*t)) != Step::Shifted {
                    return Err(format!("repair #{k} (Insert {}) cannot be shifted", b.grm.token_name(TIdx(*t)).unwrap_or("?")));
                }
            }
            Rep::Delete(i) => {
                if *i != p || p >= toks.len() {
                    return Err(format!("repair #{k} deletes lexeme #{i} but the next input lexeme is #{p}"));
                }
                p += 1;
            }
            Rep::Shift(i) => {
                if *i != p || p >= toks.len() {
                    return Err(format!("repair #{k} shifts lexeme #{i} but the next input lexeme is #{p}"));
                }
                if c.feed(&b.grm, st, toks[p]) != Step::Shifted {
                    return Err(format!("repair #{k} (Shift #{i}) cannot be shifted"));
                }
                p += 1;
            }
        }
    }
    Ok((p, c))
}

/// Continue plain LR from (cfg, pos) for at most `max_lexemes` further lexemes; returns
/// (number of real lexemes shifted, reached acceptance?).
pub fn continue_plain(b: &Built, st: &StateTable<u32>, toks: &[TIdx<u32>], cfg: &Cfg, pos: usize, max_lexemes: usize) -> (usize, bool) {
    let mut c = cfg.clone();
    let mut p = pos;
    let mut shifted = 0;
    while shifted < max_lexemes {
        let la = if p < toks.len() { toks[p] } else { b.grm.eof_token_idx() };
        match c.feed(&b.grm, st, la) {
            Step::Shifted => {
                p += 1;
                shifted += 1;
            }
            Step::Accepted => return (shifted, true),
            Step::Error => return (shifted, false),
        }
    }
    (shifted, false)
}

/// Replay under the *search's* semantics: before any repair the stack may first be reduced under
/// the real lookahead (the search's "shift" move creates such reduced nodes without adding a
/// repair when the real lexeme cannot be shifted). Used only to classify a failing sequence:
/// true if some such interleaving makes the sequence replay and continue.
pub fn replays_with_reductions_under_real_lookahead(b: &Built, st: &StateTable<u32>, toks: &[TIdx<u32>], cfg: &Cfg, pos: usize, seq: &[Rep]) -> bool {
    // `failed` memoises (stack, input position, repairs left) triples from which no interleaving
    // works: without it the reduce-or-not choice at every step makes long sequences exponential.
    type Memo = std::collections::HashSet<(Vec<StIdx<u32>>, usize, usize)>;
    fn go(b: &Built, st: &StateTable<u32>, toks: &[TIdx<u32>], cfg: &Cfg, p: usize, seq: &[Rep], depth: usize, failed: &mut Memo) -> bool {
        if depth > 4000 {
            return false;
        }
        let key = (cfg.stack.clone(), p, seq.len());
        if failed.contains(&key) {
            return false;
        }
        let r = go1(b, st, toks, cfg, p, seq, depth, failed);
        if !r {
            failed.insert(key);
        }
        r
    }
    fn go1(b: &Built, st: &StateTable<u32>, toks: &[TIdx<u32>], cfg: &Cfg, p: usize, seq: &[Rep], depth: usize, failed: &mut Memo) -> bool {
        if seq.is_empty() {
            let (sh, acc) = continue_plain(b, st, toks, cfg, p, parse_at_least());
            if acc || sh >= parse_at_least() {
                return true;
            }
        }
        // option: reduce under the real lookahead first (only if that ends in an error, i.e. no shift)
        let la = if p < toks.len() { toks[p] } else { b.grm.eof_token_idx() };
        let mut red = cfg.clone();
        if red.feed(&b.grm, st, la) == Step::Error && red.stack != cfg.stack && go(b, st, toks, &red, p, seq, depth + 1, failed) {
            return true;
        }
        let Some((first, rest)) = seq.split_first() else { return false };
        match first {
            Rep::Insert(t) => {
                let mut c = cfg.clone();
                c.feed(&b.grm, st, TIdx(*t)) == Step::Shifted && go(b, st, toks, &c, p, rest, depth + 1, failed)
            }
            Rep::Delete(i) => *i == p && p < toks.len() && go(b, st, toks, cfg, p + 1, rest, depth + 1, failed),
            Rep::Shift(i) => {
                if *i != p || p >= toks.len() {
                    return false;
                }
                let mut c = cfg.clone();
                c.feed(&b.grm, st, toks[p]) == Step::Shifted && go(b, st, toks, &c, p + 1, rest, depth + 1, failed)
            }
        }
    }
    let mut failed = Memo::new();
    go(b, st, toks, cfg, pos, seq, 0, &mut failed)
}

/// Is the absence of the valid minimum-cost sequence `m` explained by the known search/replay
/// divergence? The search merges nodes with equal (stack, input position) and compatible tails and
/// later ranks the whole merged group by plainly replaying its FIRST member. If a sequence that only
/// works under the search's semantics (a reduction under the real lookahead followed by an insert or
/// delete) reaches, at the same cost, the configuration `m` reaches (directly or after up to two common
/// shifts), and that sequence does not repair under plain replay, then the group, `m` included, is
/// dropped. Returns Some(true) if such a sequence exists, Some(false) if the bounded enumeration found
/// none, None if the node cap was hit first.
pub fn merged_with_search_only_sequence(b: &Built, st: &StateTable<u32>, toks: &[TIdx<u32>], cfg: &Cfg, pos: usize, cost: &dyn Fn(TIdx<u32>) -> u8, m: &[Rep], node_cap: usize) -> Option<bool> {
    let grm = &b.grm;
    let eof = grm.eof_token_idx();
    let ntok = usize::from(grm.tokens_len());
    let target = seq_cost(b, toks, cost, m);
    // m's configurations after 0, 1, 2 common shifts
    let Ok((mp, mc)) = replay_seq(b, st, toks, cfg, pos, m) else { return Some(false) };
    let m_del = matches!(m.last(), Some(Rep::Delete(_)));
    let mut chain: Vec<(Vec<StIdx<u32>>, usize)> = vec![(mc.stack.clone(), mp)];
    {
        let (mut c, mut p) = (mc.clone(), mp);
        for _ in 0..2 {
            if p < toks.len() && c.feed(grm, st, toks[p]) == Step::Shifted {
                p += 1;
                chain.push((c.stack.clone(), p));
            } else {
                break;
            }
        }
    }
    struct N {
        cfg: Cfg,
        p: usize,
        seq: Vec<Rep>,
        cost: u32,
        /// the stack was reduced under the real lookahead since the last shift
        reduced: bool,
        /// ... and an insert or delete followed such a reduction somewhere on the path
        taint: bool,
        trailing_shifts: usize,
    }
    let mut work = vec![N { cfg: cfg.clone(), p: pos, seq: vec![], cost: 0, reduced: false, taint: false, trailing_shifts: 0 }];
    let mut nodes = 0usize;
    let mut seen: HashSet<(Vec<StIdx<u32>>, usize, Vec<Rep>, bool)> = HashSet::new();
    while let Some(nd) = work.pop() {
        nodes += 1;
        if nodes > node_cap {
            return None;
        }
        if !seen.insert((nd.cfg.stack.clone(), nd.p, nd.seq.clone(), nd.reduced)) {
            continue;
        }
        if nd.taint && nd.cost == target && nd.trailing_shifts < chain.len() {
            let (ref ms, mp2) = chain[nd.trailing_shifts];
            let base_len = nd.seq.len() - nd.trailing_shifts;
            let q_del = base_len > 0 && matches!(nd.seq[base_len - 1], Rep::Delete(_));
            if *ms == nd.cfg.stack && mp2 == nd.p && (nd.trailing_shifts > 0 || q_del == m_del) && nd.seq[..base_len] != *m {
                // does the tainted sequence repair under plain replay?
                let plain_ok = match replay_seq(b, st, toks, cfg, pos, &nd.seq[..base_len]) {
                    Ok((p2, c2)) => {
                        let (sh, acc) = continue_plain(b, st, toks, &c2, p2, parse_at_least());
                        acc || sh >= parse_at_least()
                    }
                    Err(_) => false,
                };
                if !plain_ok {
                    return Some(true);
                }
            }
        }
        if nd.trailing_shifts >= parse_at_least() {
            continue; // a success node of the search: not expanded
        }
        let la = if nd.p < toks.len() { toks[nd.p] } else { eof };
        // the search's reduce-only move
        {
            let mut c2 = nd.cfg.clone();
            if c2.feed(grm, st, la) == Step::Error && c2.stack != nd.cfg.stack {
                work.push(N { cfg: c2, p: nd.p, seq: nd.seq.clone(), cost: nd.cost, reduced: true, taint: nd.taint, trailing_shifts: nd.trailing_shifts });
            }
        }
        let last_delete = matches!(nd.seq.last(), Some(Rep::Delete(_)));
        if !last_delete {
            for t in 0..ntok {
                let t = TIdx(t as u32);
                if t == eof {
                    continue;
                }
                let nc = nd.cost + cost(t) as u32;
                if nc > target {
                    continue;
                }
                let mut c2 = nd.cfg.clone();
                if c2.feed(grm, st, t) == Step::Shifted {
                    let mut seq = nd.seq.clone();
                    seq.push(Rep::Insert(u32::from(t)));
                    work.push(N { cfg: c2, p: nd.p, seq, cost: nc, reduced: nd.reduced, taint: nd.taint || nd.reduced, trailing_shifts: 0 });
                }
            }
        }
        if nd.p < toks.len() {
            let nc = nd.cost + cost(toks[nd.p]) as u32;
            if nc <= target {
                let mut seq = nd.seq.clone();
                seq.push(Rep::Delete(nd.p));
                work.push(N { cfg: nd.cfg.clone(), p: nd.p + 1, seq, cost: nc, reduced: nd.reduced, taint: nd.taint || nd.reduced, trailing_shifts: 0 });
            }
            let mut c2 = nd.cfg.clone();
            if c2.feed(grm, st, toks[nd.p]) == Step::Shifted {
                let mut seq = nd.seq.clone();
                seq.push(Rep::Shift(nd.p));
                work.push(N { cfg: c2, p: nd.p + 1, seq, cost: nd.cost, reduced: false, taint: nd.taint, trailing_shifts: nd.trailing_shifts + 1 });
            }
        }
    }
    Some(false)
}

/// All (stack, position) configurations the search can be in after `seq`, i.e. replaying it with an
/// optional reduction under the real lookahead before each repair and after the last one.
pub fn search_semantics_configs(b: &Built, st: &StateTable<u32>, toks: &[TIdx<u32>], cfg: &Cfg, pos: usize, seq: &[Rep]) -> Vec<(Cfg, usize)> {
    let grm = &b.grm;
    let eof = grm.eof_token_idx();
    let mut out: Vec<(Cfg, usize)> = vec![];
    let mut seen: HashSet<(Vec<StIdx<u32>>, usize, usize)> = HashSet::new();
    let mut work: Vec<(Cfg, usize, usize)> = vec![(cfg.clone(), pos, 0)];
    while let Some((c, p, k)) = work.pop() {
        if !seen.insert((c.stack.clone(), p, k)) || seen.len() > 20_000 {
            continue;
        }
        let la = if p < toks.len() { toks[p] } else { eof };
        let mut red = c.clone();
        if red.feed(grm, st, la) == Step::Error && red.stack != c.stack {
            work.push((red, p, k));
        }
        if k == seq.len() {
            out.push((c, p));
            continue;
        }
        match &seq[k] {
            Rep::Insert(t) => {
                let mut c2 = c.clone();
                if c2.feed(grm, st, TIdx(*t)) == Step::Shifted {
                    work.push((c2, p, k + 1));
                }
            }
            Rep::Delete(i) => {
                if *i == p && p < toks.len() {
                    work.push((c, p + 1, k + 1));
                }
            }
            Rep::Shift(i) => {
                if *i == p && p < toks.len() {
                    let mut c2 = c.clone();
                    if c2.feed(grm, st, toks[p]) == Step::Shifted {
                        work.push((c2, p + 1, k + 1));
                    }
                }
            }
        }
    }
    out
}

/// Is the presence of the plain-valid but not-best-reach sequence `x` among the reported ones explained
/// by the known search/replay divergence? The search merges nodes by (stack, position) under ITS
/// semantics and ranks a merged group by its first member: `x` survives ranking if, under the search's
/// semantics, it reaches the configuration that some best-reach sequence `m` reaches (directly or after
/// up to two common shifts), although replayed plainly it gets less far.
pub fn merges_with_best_reach_sequence(b: &Built, st: &StateTable<u32>, toks: &[TIdx<u32>], cfg: &Cfg, pos: usize, x: &[Rep], best: &BTreeSet<Vec<Rep>>) -> bool {
    let grm = &b.grm;
    let xs = search_semantics_configs(b, st, toks, cfg, pos, x);
    let x_del = matches!(x.last(), Some(Rep::Delete(_)));
    for m in best {
        let Ok((mp, mc)) = replay_seq(b, st, toks, cfg, pos, m) else { continue };
        let m_del = matches!(m.last(), Some(Rep::Delete(_)));
        for (xc, xp) in &xs {
            // compare after j = 0, 1, 2 common shifts
            let (mut a, mut ap, mut c, mut cp) = (xc.clone(), *xp, mc.clone(), mp);
            for j in 0..3 {
                if a.stack == c.stack && ap == cp && (j > 0 || x_del == m_del) {
                    return true;
                }
                if ap >= toks.len() || cp >= toks.len() {
                    break;
                }
                if a.feed(grm, st, toks[ap]) != Step::Shifted || c.feed(grm, st, toks[cp]) != Step::Shifted {
                    break;
                }
                ap += 1;
                cp += 1;
            }
        }
    }
    false
}

pub struct ReplayStats {
    pub errors: u64,
    pub sequences_validated: u64,
    pub multi_seq_errors: u64,
    pub inserted_leaves: u64,
    pub min_gap: Option<usize>,
}

/// What the replay model needs to know about each error it walked over (for C06/C07).
pub struct ErrCtx {
    pub pos: usize,
    pub cfg: Cfg,
    pub rec_index: usize,
}

/// The C05 replay model. Returns the list of violations (kind, message), statistics and the
/// error contexts (configuration at each error) for the reference search.
pub fn replay_model(b: &Built, st: &StateTable<u32>, si: &SynInput, toks: &[TIdx<u32>], rec: &ParseRec) -> (Vec<(String, String, Vec<&'static str>)>, ReplayStats, Vec<ErrCtx>) {
    let mut viol: Vec<(String, String, Vec<&'static str>)> = vec![];
    let mut stats = ReplayStats { errors: 0, sequences_validated: 0, multi_seq_errors: 0, inserted_leaves: 0, min_gap: None };
    let mut ctxs = vec![];
    for m in &rec.malformed {
        viol.push(("malformed-result".into(), m.clone(), vec![]));
    }
    let n = toks.len();
    let mut r = RefLR::new(&b.grm, st);
    let mut pos = 0usize;
    let mut ei = 0usize;
    let mut accepted = false;
    let mut gave_up = false;
    let mut guard = 0;
    let mut last_err_resume: Option<usize> = None;
    loop {
        guard += 1;
        if guard > 100_000 {
            viol.push(("model-loop".into(), "replay model did not terminate".into(), vec![]));
            break;
        }
        let la = if pos < n { toks[pos] } else { b.grm.eof_token_idx() };
        let leaf = if pos < n { Some(term_of(si.lexemes[pos])) } else { None };
        match r.feed(la, leaf) {
            Step::Shifted => pos += 1,
            Step::Accepted => {
                accepted = true;
                break;
            }
            Step::Error => {
                stats.errors += 1;
                let Some(e) = rec.errors.get(ei) else {
                    viol.push(("missing-error".into(), format!("plain LR over the (repaired) input errs at lexeme #{pos} but only {} errors were reported", rec.errors.len()), vec![]));
                    break;
                };
                if e.at != pos {
                    viol.push(("error-position".into(), format!("error #{ei} reported at lexeme #{} but parsing the input with the earlier first repairs applied errs at lexeme #{pos}", e.at), vec![]));
                    break;
                }
                if e.stidx != u32::from(r.top()) {
                    viol.push(("error-state".into(), format!("error #{ei} reports state {} but the replayed parse is in state {}", e.stidx, u32::from(r.top())), vec![]));
                }
                if let Some(lr) = last_err_resume {
                    let gap = pos - lr;
                    stats.min_gap = Some(stats.min_gap.map_or(gap, |g: usize| g.min(gap)));
                }
                let cfg = Cfg { stack: r.stack.clone() };
                ctxs.push(ErrCtx { pos, cfg: cfg.clone(), rec_index: ei });
                if e.repairs.is_empty() {
                    gave_up = true;
                    ei += 1;
                    break;
                }
                if e.repairs.len() >= 2 {
                    stats.multi_seq_errors += 1;
                }
                // (ii) every sequence repairs
                for (si_, seq) in e.repairs.iter().enumerate() {
                    stats.sequences_validated += 1;
                    match replay_seq(b, st, toks, &cfg, pos, seq) {
                        Err(m) => {
                            let tags = if replays_with_reductions_under_real_lookahead(b, st, toks, &cfg, pos, seq) { vec!["valid_only_with_reductions_under_real_lookahead"] } else { vec![] };
                            viol.push(("sequence-does-not-replay".into(), format!("error #{ei} sequence #{si_} [{}]: {m}", pp_seq(&b.grm, seq)), tags))
                        }
                        Ok((p2, c2)) => {
                            let (sh, acc) = continue_plain(b, st, toks, &c2, p2, parse_at_least());
                            if !(acc || sh >= parse_at_least()) {
                                let tags = if replays_with_reductions_under_real_lookahead(b, st, toks, &cfg, pos, seq) { vec!["valid_only_with_reductions_under_real_lookahead"] } else { vec![] };
                                viol.push(("sequence-does-not-continue".into(), format!("error #{ei} sequence #{si_} [{}]: after applying it plain LR shifts only {sh} further lexeme(s) and does not reach acceptance", pp_seq(&b.grm, seq)), tags));
                            }
                        }
                    }
                }
                // (iii) apply the first sequence
                let mut p = pos;
                let mut ok = true;
                for rep in &e.repairs[0] {
                    match rep {
                        Rep::Insert(t) => {
                            let at = if p < n { si.lexemes[p].span().start() } else { si.eof_pos() };
                            let leaf = Tree::Term { tidx: *t, start: at, end: at, faulty: true };
                            stats.inserted_leaves += 1;
                            if r.feed(TIdx(*t), Some(leaf)) != Step::Shifted {
                                ok = false;
                                break;
                            }
                        }
                        Rep::Delete(i) => {
                            if *i != p {
                                ok = false;
                                break;
                            }
                            p += 1;
                        }
                        Rep::Shift(i) => {
                            if *i != p || p >= n || r.feed(toks[p], Some(term_of(si.lexemes[p]))) != Step::Shifted {
                                ok = false;
                                break;
                            }
                            p += 1;
                        }
                    }
                }
                if !ok {
                    // already reported through (ii) for sequence #0
                    break;
                }
                pos = p;
                last_err_resume = Some(pos);
                ei += 1;
            }
        }
    }
    if viol.is_empty() {
        if ei != rec.errors.len() {
            viol.push(("extra-errors".into(), format!("{} errors were reported but parsing with the first repairs applied only errs {} time(s)", rec.errors.len(), ei), vec![]));
        }
        if accepted {
            match &rec.tree {
                None => viol.push(("value-missing".into(), "every error has a repair and the repaired input is accepted, but no value was returned".into(), vec![])),
                Some(t) => {
                    if r.trees.len() != 1 || *t != r.trees[0] {
                        viol.push(("tree-differs".into(), format!("returned tree differs from parsing the input with the first repair sequence of each error applied: got {} expected {}", t.pp(&b.grm), r.trees.first().map(|x| x.pp(&b.grm)).unwrap_or_default()), vec![]));
                    }
                }
            }
        } else if gave_up && rec.tree.is_some() {
            viol.push(("value-despite-giving-up".into(), "the last error has no repair sequence but a value was returned".into(), vec![]));
        }
    }
    (viol, stats, ctxs)
}

// ---------------------------------------------------------------------------------------------
// reference exhaustive repair search

#[derive(Clone)]
struct Node {
    cfg: Cfg,
    p: usize,
    seq: Vec<Rep>,
    cost: u32,
    trailing_shifts: usize,
}

pub enum RefSearch {
    /// (minimum cost, full set of reportable sequences: min cost, best reach, trailing shifts stripped)
    Found(u32, BTreeSet<Vec<Rep>>, RefInfo),
    /// no repair of cost <= max_cost exists
    NoneUpTo(u32),
    /// search exceeded its node cap
    Capped,
}

pub struct RefInfo {
    pub successes_before_ranking: usize,
    pub removed_by_ranking: usize,
    pub nodes: usize,
}

fn is_success(b: &Built, st: &StateTable<u32>, toks: &[TIdx<u32>], nd: &Node) -> bool {
    if nd.trailing_shifts >= parse_at_least() {
        return true;
    }
    if nd.p == toks.len() {
        let mut c = nd.cfg.clone();
        return c.feed(&b.grm, st, b.grm.eof_token_idx()) == Step::Accepted;
    }
    false
}

pub fn reference_search(b: &Built, st: &StateTable<u32>, toks: &[TIdx<u32>], cfg: &Cfg, pos: usize, cost: &dyn Fn(TIdx<u32>) -> u8, max_cost: u32, node_cap: usize) -> RefSearch {
    let grm = &b.grm;
    let eof = grm.eof_token_idx();
    let ntok = usize::from(grm.tokens_len());
    let mut buckets: Vec<Vec<Node>> = vec![vec![]; (max_cost + 2) as usize];
    buckets[0].push(Node { cfg: cfg.clone(), p: pos, seq: vec![], cost: 0, trailing_shifts: 0 });
    let mut nodes = 0usize;
    for c in 0..=max_cost {
        let mut successes: Vec<Node> = vec![];
        // explore this cost level completely (zero-cost shift moves stay inside the level)
        let mut work: Vec<Node> = std::mem::take(&mut buckets[c as usize]);
        let mut seen_level: HashSet<(Vec<StIdx<u32>>, usize, Vec<Rep>)> = HashSet::new();
        while let Some(nd) = work.pop() {
            nodes += 1;
            if nodes > node_cap {
                return RefSearch::Capped;
            }
            if !seen_level.insert((nd.cfg.stack.clone(), nd.p, nd.seq.clone())) {
                continue;
            }
            if is_success(b, st, toks, &nd) {
                successes.push(nd);
                continue;
            }
            let last_delete = matches!(nd.seq.last(), Some(Rep::Delete(_)));
            // inserts
            if !last_delete {
                for t in 0..ntok {
                    let t = TIdx(t as u32);
                    if t == eof {
                        continue;
                    }
                    let nc = nd.cost + cost(t) as u32;
                    if nc > max_cost {
                        continue;
                    }
                    let mut c2 = nd.cfg.clone();
                    if c2.feed(grm, st, t) == Step::Shifted {
                        let mut seq = nd.seq.clone();
                        seq.push(Rep::Insert(u32::from(t)));
                        buckets[nc as usize].push(Node { cfg: c2, p: nd.p, seq, cost: nc, trailing_shifts: 0 });
                    }
                }
            }
            // delete
            if nd.p < toks.len() {
                let nc = nd.cost + cost(toks[nd.p]) as u32;
                if nc <= max_cost {
                    let mut seq = nd.seq.clone();
                    seq.push(Rep::Delete(nd.p));
                    buckets[nc as usize].push(Node { cfg: nd.cfg.clone(), p: nd.p + 1, seq, cost: nc, trailing_shifts: 0 });
                }
            }
            // shift
            if nd.p < toks.len() {
                let mut c2 = nd.cfg.clone();
                if c2.feed(grm, st, toks[nd.p]) == Step::Shifted {
                    let mut seq = nd.seq.clone();
                    seq.push(Rep::Shift(nd.p));
                    work.push(Node { cfg: c2, p: nd.p + 1, seq, cost: nd.cost, trailing_shifts: nd.trailing_shifts + 1 });
                }
            }
        }
        if !successes.is_empty() {
            // rank by reach
            let limit = pos + try_parse_at_most();
            let mut best = 0usize;
            let mut reach: Vec<usize> = vec![];
            for s in &successes {
                let budget = limit.saturating_sub(s.p);
                let (sh, _) = continue_plain(b, st, toks, &s.cfg, s.p, budget);
                let r = s.p + sh;
                best = best.max(r);
                reach.push(r);
            }
            let mut set = BTreeSet::new();
            let mut removed = 0;
            for (s, r) in successes.iter().zip(reach.iter()) {
                if *r == best {
                    let mut q = s.seq.clone();
                    while matches!(q.last(), Some(Rep::Shift(_))) {
                        q.pop();
                    }
                    set.insert(q);
                } else {
                    removed += 1;
                }
            }
            return RefSearch::Found(c, set, RefInfo { successes_before_ranking: successes.len(), removed_by_ranking: removed, nodes });
        }
    }
    RefSearch::NoneUpTo(max_cost)
}

/// Second reference with the same specification as `reference_search`, organised so that its
/// reach does not collapse on cost tables that mix cost-1 and cost-200+ tokens: partial sequences
/// are folded by what their future depends on - (stack, input position, "last edit was a
/// Delete", number of trailing shifts) - keeping for every such configuration its minimum cost and
/// every (predecessor, edit) pair that attains it. Every prefix of a minimum-cost repair attains the
/// minimum cost of its configuration (else swapping in the cheaper prefix would give a cheaper
/// repair with the same future), so unfolding the predecessor DAG from the best-reach successes
/// of the first successful cost level yields exactly the set `reference_search` enumerates.
/// c06 cross-checks the two on every error both can decide.
pub fn reference_search_dag(b: &Built, st: &StateTable<u32>, toks: &[TIdx<u32>], cfg: &Cfg, pos: usize, cost: &dyn Fn(TIdx<u32>) -> u8, max_cost: u32, node_cap: usize, seq_cap: usize) -> RefSearch {
    use std::collections::{BTreeMap, HashMap};
    #[derive(Clone, PartialEq, Eq, Hash)]
    struct Key {
        stack: Vec<StIdx<u32>>,
        p: usize,
        last_delete: bool,
        ts: usize,
    }
    struct KN {
        key: Key,
        cost: u32,
        preds: Vec<(usize, Rep)>,
        expanded: bool,
    }
    let grm = &b.grm;
    let eof = grm.eof_token_idx();
    let ntok = usize::from(grm.tokens_len());
    let mut index: HashMap<Key, usize> = HashMap::new();
    let mut kn: Vec<KN> = vec![];
    let mut levels: BTreeMap<u32, Vec<usize>> = BTreeMap::new();
    let k0 = Key { stack: cfg.stack.clone(), p: pos, last_delete: false, ts: 0 };
    index.insert(k0.clone(), 0);
    kn.push(KN { key: k0, cost: 0, preds: vec![], expanded: false });
    levels.entry(0).or_default().push(0);
    let mut nodes = 0usize;
    // returns Some(i) if node i has to be (re)scheduled at cost `c`
    fn link(index: &mut HashMap<Key, usize>, kn: &mut Vec<KN>, from: usize, rep: Rep, key: Key, c: u32) -> Option<usize> {
        match index.get(&key) {
            Some(&i) => {
                if kn[i].cost == c {
                    if !kn[i].preds.contains(&(from, rep.clone())) {
                        kn[i].preds.push((from, rep));
                    }
                    None
                } else if c < kn[i].cost {
                    debug_assert!(!kn[i].expanded);
                    kn[i].cost = c;
                    kn[i].preds = vec![(from, rep)];
                    Some(i)
                } else {
                    None
                }
            }
            None => {
                let i = kn.len();
                index.insert(key.clone(), i);
                kn.push(KN { key, cost: c, preds: vec![(from, rep)], expanded: false });
                Some(i)
            }
        }
    }
    while let Some((c, mut work)) = levels.pop_first() {
        if c > max_cost {
            break;
        }
        let mut successes: Vec<usize> = vec![];
        while let Some(i) = work.pop() {
            if kn[i].expanded || kn[i].cost != c {
                continue;
            }
            kn[i].expanded = true;
            nodes += 1;
            if nodes > node_cap {
                return RefSearch::Capped;
            }
            let key = kn[i].key.clone();
            let ndcfg = Cfg { stack: key.stack.clone() };
            let succ = key.ts >= parse_at_least() || (key.p == toks.len() && ndcfg.clone().feed(grm, st, eof) == Step::Accepted);
            if succ {
                successes.push(i);
                continue;
            }
            if !key.last_delete {
                for t in 0..ntok {
                    let t = TIdx(t as u32);
                    if t == eof {
                        continue;
                    }
                    let ct = cost(t) as u32;
                    let nc = c + ct;
                    if ct == 0 || nc > max_cost {
                        continue;
                    }
                    let mut c2 = ndcfg.clone();
                    if c2.feed(grm, st, t) == Step::Shifted {
                        if let Some(j) = link(&mut index, &mut kn, i, Rep::Insert(u32::from(t)), Key { stack: c2.stack, p: key.p, last_delete: false, ts: 0 }, nc) {
                            levels.entry(nc).or_default().push(j);
                        }
                    }
                }
            }
            if key.p < toks.len() {
                let ct = cost(toks[key.p]) as u32;
                let nc = c + ct;
                if ct > 0 && nc <= max_cost {
                    if let Some(j) = link(&mut index, &mut kn, i, Rep::Delete(key.p), Key { stack: key.stack.clone(), p: key.p + 1, last_delete: true, ts: 0 }, nc) {
                        levels.entry(nc).or_default().push(j);
                    }
                }
                let mut c2 = ndcfg.clone();
                if c2.feed(grm, st, toks[key.p]) == Step::Shifted {
                    if let Some(j) = link(&mut index, &mut kn, i, Rep::Shift(key.p), Key { stack: c2.stack, p: key.p + 1, last_delete: false, ts: key.ts + 1 }, c) {
                        work.push(j);
                    }
                }
            }
        }
        if !successes.is_empty() {
            let limit = pos + try_parse_at_most();
            let mut best = 0usize;
            let mut reach: Vec<usize> = vec![];
            for &s in &successes {
                let k = &kn[s].key;
                let (sh, _) = continue_plain(b, st, toks, &Cfg { stack: k.stack.clone() }, k.p, limit.saturating_sub(k.p));
                reach.push(k.p + sh);
                best = best.max(k.p + sh);
            }
            // unfold every minimum-cost history of the best-reach successes (and count those of the others)
            let mut set = BTreeSet::new();
            let mut removed = 0usize;
            let mut total = 0usize;
            for (&s, &r) in successes.iter().zip(reach.iter()) {
                // (node, reversed suffix)
                let mut stack: Vec<(usize, Vec<Rep>)> = vec![(s, vec![])];
                while let Some((i, suf)) = stack.pop() {
                    total += 1;
                    if total > seq_cap * 8 {
                        return RefSearch::Capped;
                    }
                    if kn[i].preds.is_empty() {
                        if r == best {
                            let mut q: Vec<Rep> = suf.iter().rev().cloned().collect();
                            while matches!(q.last(), Some(Rep::Shift(_))) {
                                q.pop();
                            }
                            set.insert(q);
                            if set.len() > seq_cap {
                                return RefSearch::Capped;
                            }
                        } else {
                            removed += 1;
                        }
                        continue;
                    }
                    for (pi, rep) in &kn[i].preds {
                        let mut s2 = suf.clone();
                        s2.push(rep.clone());
                        stack.push((*pi, s2));
                    }
                }
            }
            let n_before = set.len() + removed;
            return RefSearch::Found(c, set, RefInfo { successes_before_ranking: n_before, removed_by_ranking: removed, nodes });
        }
    }
    RefSearch::NoneUpTo(max_cost)
}

pub fn seq_cost(b: &Built, toks: &[TIdx<u32>], cost: &dyn Fn(TIdx<u32>) -> u8, seq: &[Rep]) -> u32 {
    let _ = b;
    seq.iter()
        .map(|r| match r {
            Rep::Insert(t) => cost(TIdx(*t)) as u32,
            Rep::Delete(i) => toks.get(*i).map(|t| cost(*t) as u32).unwrap_or(0),
            Rep::Shift(_) => 0,
        })
        .sum()
}

// ---------------------------------------------------------------------------------------------
// workload generation shared by C05/C06/C07

pub struct RecCase {
    pub ag: AG,
    pub b: Built,
    pub st: StateTable<u32>,
    pub costs: Vec<u8>,
    pub cost_kind: &'static str,
}

/// A grammar suitable for parsing workloads (no derivation cycle, no reduce loop), with a random
/// %avoid_insert set and a token cost table.
pub fn gen_rec_case(rng: &mut Rng, small_alphabet: bool) -> Option<RecCase> {
    for _ in 0..20 {
        let mut ag = if rng.chance(1, 2) { gen_lr1(rng) } else { gen_mixed(rng, true) };
        if small_alphabet && ag.tokens.len() > 6 {
            continue;
        }
        if has_derivation_cycle(&ag) || productive(&ag).iter().any(|x| !*x) {
            continue;
        }
        if rng.chance(1, 3) && !ag.tokens.is_empty() {
            let k = rng.range(1, ag.tokens.len().min(2));
            let mut ts: Vec<usize> = (0..ag.tokens.len()).collect();
            rng.shuffle(&mut ts);
            ag.avoid_insert = ts[..k].to_vec();
        }
        // %expect declarations are irrelevant to run-time tables; drop them
        ag.expect = None;
        ag.expectrr = None;
        let Ok(b) = build_grm(&ag) else { continue };
        let Ok(Ok((sg, st))) = crate::frame::guarded(|| b.table()) else { continue };
        if table_has_reduce_loop(&b.grm, usize::from(sg.all_states_len()), &st) {
            continue;
        }
        let (costs, cost_kind): (Vec<u8>, &'static str) = match rng.below(8) {
            0 | 1 => (vec![1; ag.tokens.len()], "all-1"),
            2 | 3 => ((0..ag.tokens.len()).map(|_| rng.range(1, 3) as u8).collect(), "1-3"),
            4 => ((0..ag.tokens.len()).map(|_| rng.range(200, 255) as u8).collect(), "all-200-255"),
            // cheap and dear tokens within a factor of four: "two cheap repairs or one dear one" trade-offs
            5 | 6 => ((0..ag.tokens.len()).map(|_| if rng.chance(1, 2) { rng.range(200, 255) as u8 } else { rng.range(60, 90) as u8 }).collect(), "mixed-60-90-and-200-255"),
            _ => ((0..ag.tokens.len()).map(|_| if rng.chance(1, 3) { rng.range(200, 255) as u8 } else { rng.range(1, 2) as u8 }).collect(), "some-200-255"),
        };
        return Some(RecCase { ag, b, st, costs, cost_kind });
    }
    None
}

/// A long erroneous input: a sampled sentence of 270-400 tokens with one token-level edit among
/// its first ten tokens, so that more than TRY_PARSE_AT_MOST error-free lexemes follow the error
/// (the ranking window of the recovery then ends inside the input, not at its end).
pub fn gen_long_bad_input(rng: &mut Rng, ag: &AG) -> Option<Vec<usize>> {
    let nt = ag.tokens.len();
    for _ in 0..24 {
        let d = rng.range(20, 80);
        if let Some(s) = sample_sentence(ag, rng, ag.start, d) {
            if s.len() >= 270 {
                let k = s.len().min(10);
                let mut m = mutate(rng, &s[..k], nt, 1);
                m.extend_from_slice(&s[k..]);
                return Some(m);
            }
        }
    }
    None
}

/// An erroneous (usually) input: a sampled sentence with `nerr` independent token-level edits.
pub fn gen_bad_input(rng: &mut Rng, ag: &AG, maxlen: usize, nerr: usize) -> Vec<usize> {
    let nt = ag.tokens.len();
    for _ in 0..10 {
        let d = rng.range(2, 9);
        if let Some(s) = sample_sentence(ag, rng, ag.start, d) {
            if s.len() <= maxlen {
                let m = mutate(rng, &s, nt, nerr);
                if m.len() <= maxlen + 2 {
                    return m;
                }
            }
        }
    }
    random_tokens(rng, nt, maxlen.min(6))
}

//! Rich rendering of abstract grammars to `.y` text in all three syntaxes with randomised
//! layout (whitespace, CRLF, `//` and `/* */` comments at legal gaps, quoting styles,
//! declaration order, split rule definitions, %empty, multi-byte text), recording the byte
//! ranges of what it prints. Plus `decorate`: adds the optional declarations to an AG.

use crate::ag::*;
use crate::rng::Rng;

#[derive(Clone, Debug, Default)]
pub struct RenderedY {
    pub text: String,
    /// per rule: byte range of its name at its first definition
    pub rule_name_first: Vec<Option<(usize, usize)>>,
    /// per token: byte ranges of every occurrence of its name (inside quotes)
    pub token_occurrences: Vec<Vec<(usize, usize)>>,
    /// productions in source order: (rule, prod index in rule, byte range of the alternative
    /// from its first symbol (or %empty, or where the alternative starts) to the end of its last
    /// symbol/%prec token, start of first symbol if any)
    pub prods_in_order: Vec<(usize, usize, (usize, usize))>,
    pub constructs: Vec<&'static str>,
    pub has_header: bool,
}

pub struct YOpts {
    pub header: bool,
    pub crlf: bool,
    pub comments: bool,
    pub split_rules: bool,
    pub use_percent_empty: bool,
    pub shuffle_decls: bool,
    pub tricky_comments: bool,
}

impl YOpts {
    pub fn random(rng: &mut Rng) -> YOpts {
        YOpts { header: rng.chance(1, 3), crlf: rng.chance(1, 4), comments: rng.chance(2, 3), split_rules: rng.chance(1, 3), use_percent_empty: rng.chance(1, 3), shuffle_decls: rng.chance(2, 3), tricky_comments: rng.chance(1, 3) }
    }
    pub fn plain() -> YOpts {
        YOpts { header: false, crlf: false, comments: false, split_rules: false, use_percent_empty: false, shuffle_decls: false, tricky_comments: false }
    }
}

/// Add optional declarations to a grammar: declared tokens, %epp, %avoid_insert, %expect,
/// %parse-param, actions, action types; optionally switch syntax.
pub fn decorate(g: &mut AG, rng: &mut Rng) {
    g.kind = *rng.pick(&[AKind::OriginalGeneric, AKind::OriginalNoAction, AKind::OriginalUser, AKind::Grmtools, AKind::Grmtools, AKind::Eco]);
    let nt = g.tokens.len();
    // token names: mix of symbols, identifiers, multi-byte, names containing the other quote or a space
    let fancy = ["PLUS", "id", "+", "==", "é", "a b", "it's", "\"q\"", "INT", "♠x", "->", "%", "{", "|", ";", "T_1"];
    let mut used: Vec<String> = vec![];
    for t in 0..nt {
        if rng.chance(1, 2) {
            let mut cand = fancy[rng.below(fancy.len())].to_string();
            while used.contains(&cand) || g.tokens.iter().any(|x| x.name == cand) || g.rules.iter().any(|r| r.name == cand) {
                cand.push('x');
            }
            used.push(cand.clone());
            g.tokens[t].name = cand;
        }
    }
    for t in 0..nt {
        let n = &g.tokens[t].name;
        let ident = n.chars().next().is_some_and(|c| c.is_ascii_alphabetic() || c == '_') && n.chars().all(|c| c.is_ascii_alphanumeric() || c == '_');
        // a bare %token name must not clash with a rule name
        g.tokens[t].declared = ident && rng.chance(1, 2) && !g.rules.iter().any(|r| &r.name == n);
    }
    if rng.chance(1, 2) {
        for t in 0..nt {
            if rng.chance(1, 3) {
                let e = *rng.pick(&["plus sign", "an \"id\"", "it's", "é!", "x"]);
                g.epp.push((t, e.to_string()));
            }
        }
    }
    if rng.chance(1, 3) && nt > 0 {
        let k = rng.range(1, nt.min(3));
        let mut ts: Vec<usize> = (0..nt).collect();
        rng.shuffle(&mut ts);
        g.avoid_insert = ts[..k].to_vec();
    }
    if g.kind == AKind::Eco && rng.chance(1, 2) {
        // implicit tokens: fresh tokens that occur nowhere else
        for k in 0..rng.range(1, 3) {
            let t = g.tok(&format!("ws{k}"));
            g.implicit_tokens.push(t);
        }
    }
    if rng.chance(1, 3) {
        g.expect = Some(rng.below(5));
    }
    if rng.chance(1, 4) {
        g.expectrr = Some(rng.below(3));
    }
    if matches!(g.kind, AKind::Grmtools | AKind::OriginalUser) {
        if rng.chance(1, 2) {
            g.parse_param = Some(("p".to_string(), (*rng.pick(&["&'a mut Vec<u8>", "u64", "(&str, ::std::primitive::u8)"])).to_string()));
        }
        let types = ["u64", "Result<u64, ()>", "Vec<(a::B, C)>", "()", "Option<&'input str>"];
        for r in g.rules.iter_mut() {
            if g.kind == AKind::Grmtools {
                r.actiontype = Some((*rng.pick(&types)).to_string());
            }
            for p in r.prods.iter_mut() {
                if rng.chance(2, 3) {
                    p.action = Some((*rng.pick(&["$1", "Ok(1)", "{ let x = $2; x }", "match $1 { Ok(_) => 0, Err(_) => { 1 } }", "\"é\".len() as u64", "$lexer.span_str($span)", "vec![\n      1,\n      2]"])).to_string());
                }
            }
        }
    }
}

struct W<'a> {
    t: String,
    rng: &'a mut Rng,
    nl: &'static str,
    comments: bool,
    tricky: bool,
}

impl W<'_> {
    /// a gap that may contain newlines and comments
    fn gap(&mut self) {
        match self.rng.below(6) {
            0 => self.t.push(' '),
            1 => self.t.push_str("  "),
            2 => self.t.push('\t'),
            3 => {
                self.t.push_str(self.nl);
                self.t.push_str("    ");
            }
            _ => self.t.push(' '),
        }
        if self.comments && self.rng.chance(1, 6) {
            self.comment();
        }
    }
    /// a gap without newlines (inside single-line declarations)
    fn hgap(&mut self) {
        self.t.push_str(if self.rng.chance(1, 4) { "\t" } else { " " });
        if self.comments && self.rng.chance(1, 10) {
            self.t.push_str("/* c */ ");
        }
    }
    fn comment(&mut self) {
        let nl = self.nl;
        let c: String = if self.tricky {
            match self.rng.below(11) {
                7 => "/** doc **/ ".into(),
                8 => "/***/ ".into(),
                9 => format!("/****{nl} * banner *{nl} ****/ "),
                10 => "/* a **/ /* b ***/ ".into(),
                0 => "/* a | b ; 'x' %% */ ".into(),
                1 => format!("// 'x' \"y\" %% {{ }}{nl}"),
                2 => format!("/* multi{nl} line * / ** */ "),
                3 => format!("/* see{nl}// old comment{nl}*/ "),
                4 => "/**/ ".into(),
                5 => format!("/* é♠ */{nl}"),
                _ => format!("// plain{nl}"),
            }
        } else if self.rng.chance(1, 2) {
            format!("// comment{nl}")
        } else {
            "/* comment */ ".into()
        };
        self.t.push_str(&c);
    }
    fn line(&mut self) {
        self.t.push_str(self.nl);
        if self.comments && self.rng.chance(1, 5) {
            self.comment();
            if !self.t.ends_with('\n') {
                self.t.push_str(self.nl);
            }
        }
    }
}

fn tok_text(g: &AG, t: usize, rng: &mut Rng, allow_bare: bool) -> (String, usize) {
    // returns (text, offset of the name inside text)
    let tk = &g.tokens[t];
    if tk.declared && allow_bare {
        return (tk.name.clone(), 0);
    }
    let can_single = !tk.name.contains('\'');
    let can_double = !tk.name.contains('"');
    let q = if can_single && can_double {
        if rng.chance(1, 2) {
            '\''
        } else {
            '"'
        }
    } else if can_single {
        '\''
    } else {
        '"'
    };
    (format!("{q}{}{q}", tk.name), 1)
}

pub fn render_fancy(g: &AG, rng: &mut Rng, o: &YOpts) -> RenderedY {
    let mut r = RenderedY { rule_name_first: vec![None; g.rules.len()], token_occurrences: vec![vec![]; g.tokens.len()], ..Default::default() };
    let nl: &'static str = if o.crlf { "\r\n" } else { "\n" };
    let mut w = W { t: String::new(), rng, nl, comments: o.comments, tricky: o.tricky_comments };
    if o.header {
        r.has_header = true;
        r.constructs.push("grmtools-section");
        let yk = match g.kind {
            AKind::OriginalNoAction => "Original(NoAction)",
            AKind::OriginalGeneric => "Original(GenericParseTree)",
            AKind::OriginalUser => "Original(UserAction)",
            AKind::Grmtools => "Grmtools",
            AKind::Eco => "Eco",
        };
        if w.rng.chance(1, 2) {
            w.t.push_str(&format!("%grmtools{{yacckind: {yk}}}{nl}"));
        } else {
            w.t.push_str(&format!("%grmtools {{{nl}  yacckind: YaccKind::{yk},{nl}}}{nl}"));
        }
    }
    // declarations
    #[derive(Clone)]
    enum D {
        Token,
        Start,
        Expect,
        ExpectRR,
        Avoid,
        Implicit,
        Epp(usize),
        Param,
        ActionType,
        Prec(usize),
    }
    let mut decls: Vec<D> = vec![];
    if g.tokens.iter().any(|t| t.declared) {
        decls.push(D::Token);
    }
    if g.start != 0 || w.rng.chance(2, 3) {
        decls.push(D::Start);
    }
    if g.expect.is_some() {
        decls.push(D::Expect);
    }
    if g.expectrr.is_some() {
        decls.push(D::ExpectRR);
    }
    if !g.avoid_insert.is_empty() {
        decls.push(D::Avoid);
    }
    if !g.implicit_tokens.is_empty() && g.kind == AKind::Eco {
        decls.push(D::Implicit);
    }
    for i in 0..g.epp.len() {
        decls.push(D::Epp(i));
    }
    if g.parse_param.is_some() {
        decls.push(D::Param);
    }
    if g.kind == AKind::OriginalUser {
        decls.push(D::ActionType);
    }
    if o.shuffle_decls {
        w.rng.shuffle(&mut decls);
    }
    // precedence declarations keep their relative order but are interleaved at random positions
    let mut all: Vec<D> = decls;
    for lvl in 0..g.precs.len() {
        let lo = if lvl == 0 { 0 } else { all.iter().position(|d| matches!(d, D::Prec(l) if *l == lvl - 1)).unwrap() + 1 };
        let pos = if o.shuffle_decls { w.rng.range(lo, all.len()) } else { all.len() };
        all.insert(pos, D::Prec(lvl));
    }
    // %token must come before anything that uses a bare declared name: put it first if bare names are used in declarations
    // (declarations accept bare names whether or not %token has been seen yet, so %token may come anywhere)
    if !o.shuffle_decls {
        if let Some(p) = all.iter().position(|d| matches!(d, D::Token)) {
            let d = all.remove(p);
            all.insert(0, d);
        }
    }
    let mut rec_tok = |w: &mut W, r: &mut RenderedY, t: usize, allow_bare: bool| {
        let (txt, off) = tok_text(g, t, w.rng, allow_bare);
        let st = w.t.len() + off;
        w.t.push_str(&txt);
        r.token_occurrences[t].push((st, st + g.tokens[t].name.len()));
    };
    for d in &all {
        match d {
            D::Token => {
                r.constructs.push("%token");
                w.t.push_str("%token");
                let ds: Vec<usize> = (0..g.tokens.len()).filter(|t| g.tokens[*t].declared).collect();
                for (k, t) in ds.iter().enumerate() {
                    if k > 0 && w.rng.chance(1, 4) {
                        w.t.push_str(nl);
                        w.t.push_str("       ");
                    } else {
                        w.hgap();
                    }
                    // in %token, names may be bare or quoted
                    let bare = w.rng.chance(2, 3);
                    rec_tok(&mut w, &mut r, *t, bare);
                }
            }
            D::Start => {
                r.constructs.push("%start");
                w.t.push_str("%start");
                w.hgap();
                w.t.push_str(&g.rules[g.start].name);
            }
            D::Expect => {
                r.constructs.push("%expect");
                w.t.push_str(&format!("%expect {}", g.expect.unwrap()));
            }
            D::ExpectRR => {
                r.constructs.push("%expect-rr");
                w.t.push_str(&format!("%expect-rr {}", g.expectrr.unwrap()));
            }
            D::Avoid => {
                r.constructs.push("%avoid_insert");
                w.t.push_str("%avoid_insert");
                for t in &g.avoid_insert {
                    w.hgap();
                    rec_tok(&mut w, &mut r, *t, true);
                }
            }
            D::Implicit => {
                r.constructs.push("%implicit_tokens");
                w.t.push_str("%implicit_tokens");
                for t in &g.implicit_tokens {
                    w.hgap();
                    rec_tok(&mut w, &mut r, *t, true);
                }
            }
            D::Epp(i) => {
                r.constructs.push("%epp");
                let (t, e) = &g.epp[*i];
                w.t.push_str("%epp");
                w.hgap();
                // %epp's token is looked up by name; its text is not a defining occurrence we track
                let (txt, _) = tok_text(g, *t, w.rng, true);
                w.t.push_str(&txt);
                w.hgap();
                // either delimiter; the delimiter must be escaped inside, the other quote may be
                let esc_other = w.rng.chance(1, 2);
                if w.rng.chance(1, 2) {
                    let mut body = e.replace('\'', "\\'");
                    if esc_other {
                        body = body.replace('"', "\\\"");
                    }
                    w.t.push_str(&format!("'{body}'"));
                } else {
                    let mut body = e.replace('"', "\\\"");
                    if esc_other {
                        body = body.replace('\'', "\\'");
                    }
                    w.t.push_str(&format!("\"{body}\""));
                }
            }
            D::Param => {
                r.constructs.push("%parse-param");
                let (n, t) = g.parse_param.as_ref().unwrap();
                w.t.push_str(&format!("%parse-param {n}: {t}"));
            }
            D::ActionType => {
                r.constructs.push("%actiontype");
                w.t.push_str(&format!("%actiontype {}", g.rules[0].actiontype.as_deref().unwrap_or("u64")));
            }
            D::Prec(lvl) => {
                r.constructs.push("precedence");
                let (a, ts) = &g.precs[*lvl];
                w.t.push_str(match a {
                    Assoc::Left => "%left",
                    Assoc::Right => "%right",
                    Assoc::Nonassoc => "%nonassoc",
                });
                for t in ts {
                    w.hgap();
                    // precedence declarations do not make a token known; not a defining occurrence
                    let (txt, _) = tok_text(g, *t, w.rng, true);
                    w.t.push_str(&txt);
                }
            }
        }
        w.line();
    }
    w.t.push_str("%%");
    w.line();
    // rules: chunks of alternatives in source order
    let mut chunks: Vec<(usize, Vec<usize>)> = vec![];
    let mut tail: Vec<(usize, Vec<usize>)> = vec![];
    for (ri, rule) in g.rules.iter().enumerate() {
        let n = rule.prods.len();
        if o.split_rules && n >= 2 && w.rng.chance(1, 2) {
            let k = w.rng.range(1, n - 1);
            chunks.push((ri, (0..k).collect()));
            tail.push((ri, (k..n).collect()));
            r.constructs.push("split-rule");
        } else {
            chunks.push((ri, (0..n).collect()));
        }
    }
    chunks.extend(tail);
    let mut empties: Vec<bool> = vec![];
    let mut pending_empty: Option<usize> = None;
    for (ri, pis) in &chunks {
        let rule = &g.rules[*ri];
        let st = w.t.len();
        w.t.push_str(&rule.name);
        if r.rule_name_first[*ri].is_none() {
            r.rule_name_first[*ri] = Some((st, w.t.len()));
        }
        if g.kind == AKind::Grmtools {
            w.gap();
            w.t.push_str("->");
            w.gap();
            w.t.push_str(rule.actiontype.as_deref().unwrap_or("()"));
            // everything up to the single ':' is the type: no comments here
            if w.rng.chance(1, 2) {
                w.t.push(' ');
            }
        } else if w.rng.chance(1, 2) {
            w.gap();
        }
        w.t.push(':');
        for (k, pi) in pis.iter().enumerate() {
            let p = &rule.prods[*pi];
            if k > 0 {
                w.gap();
                if let Some(i) = pending_empty.take() {
                    r.prods_in_order[i].2 .1 = w.t.len();
                }
                w.t.push('|');
            }
            w.gap();
            let alt_start = w.t.len();
            let mut alt_end = alt_start;
            if p.syms.is_empty() && o.use_percent_empty && w.rng.chance(2, 3) {
                w.t.push_str("%empty");
                alt_end = w.t.len();
                r.constructs.push("%empty");
                w.gap();
            }
            for s in &p.syms {
                match s {
                    ASym::T(t) => rec_tok(&mut w, &mut r, *t, true),
                    ASym::R(x) => w.t.push_str(&g.rules[*x].name),
                }
                alt_end = w.t.len();
                w.gap();
            }
            if let Some(t) = p.prec {
                r.constructs.push("%prec");
                w.t.push_str("%prec");
                w.gap();
                rec_tok(&mut w, &mut r, t, true);
                alt_end = w.t.len();
                w.gap();
            }
            if let Some(a) = &p.action {
                if matches!(g.kind, AKind::Grmtools | AKind::OriginalUser | AKind::Eco | AKind::OriginalGeneric | AKind::OriginalNoAction) {
                    r.constructs.push("action");
                    // the parser lets a production's span run up to its action's opening brace
                    alt_end = w.t.len();
                    w.t.push('{');
                    w.t.push_str(if w.rng.chance(1, 2) { " " } else { nl });
                    w.t.push_str(a);
                    w.t.push_str(if w.rng.chance(1, 2) { " " } else { nl });
                    w.t.push('}');
                    // after an action only '|' or ';' may follow (comments allowed)
                    if w.rng.chance(1, 2) {
                        w.t.push(' ');
                    }
                }
            }
            r.prods_in_order.push((*ri, *pi, (alt_start, alt_end)));
            empties.push(p.syms.is_empty());
            if p.syms.is_empty() && p.prec.is_none() && p.action.is_none() {
                pending_empty = Some(r.prods_in_order.len() - 1);
            }
        }
        if w.rng.chance(1, 2) {
            w.gap();
        }
        if let Some(i) = pending_empty.take() {
            r.prods_in_order[i].2 .1 = w.t.len();
        }
        w.t.push(';');
        // an alternative without symbols has no text of its own: accept a zero-length span anywhere
        // from where the alternative starts to its terminating '|' / ';' (recorded below)
        {
            let n = r.prods_in_order.len();
            let _ = n;
        }
        w.line();
    }
    if w.rng.chance(1, 5) {
        r.constructs.push("programs");
        w.t.push_str("%%");
        w.t.push_str(nl);
        w.t.push_str("fn helper() -> u64 { 1 } // é");
        w.t.push_str(nl);
    }
    r.constructs.sort();
    r.constructs.dedup();
    r.text = w.t;
    r
}

//! C01 — a generated parser recognises exactly the grammar's language.
//!
//! Three layers per generated grammar: (1) an LR(1) certificate checked on the live automaton
//! (closure/transition/reduction conditions that imply completeness for every input),
//! (2) per-input soundness (accepted => valid derivation tree whose leaves are the input),
//! (3) per-input completeness against an independent Earley recogniser (conflict-free,
//! precedence-free grammars only).

use crate::ag::*;
use crate::frame::*;
use crate::lrx::*;
use crate::refs::*;
use crate::rng::{hash_str, Rng};
use cfgrammar::{PIdx, SIdx, Symbol, TIdx};
use lrpar::RecoveryKind;
use lrtable::{Action, StateGraph, StateTable};
use serde_json::json;
use std::collections::BTreeSet;

pub struct C01;

/// The right-hand side of a grammar production in AG symbol space (start production = [R(start)]).
pub fn ag_rhs(ag: &AG, b: &Built, p: PIdx<u32>) -> Option<Vec<ASym>> {
    if p == b.grm.start_prod() {
        return Some(vec![ASym::R(ag.start)]);
    }
    b.pidx_to_ag[usize::from(p)].map(|(ri, pi)| ag.rules[ri].prods[pi].syms.clone())
}

/// Convert a lookahead bit-vector to AG token space (EOF = refs::EOF).
pub fn ctx_to_set(b: &Built, ctx: &vob::Vob) -> BTreeSet<usize> {
    let mut s = BTreeSet::new();
    for t in ctx.iter_set_bits(..) {
        if t == usize::from(b.grm.eof_token_idx()) {
            s.insert(EOF);
        } else if let Some(Some(a)) = b.tidx_to_ag.get(t) {
            s.insert(*a);
        } else {
            s.insert(usize::MAX - 1 - t); // unknown token: keeps sets comparable, never matches
        }
    }
    s
}

pub fn la_to_tidx(b: &Built, la: usize) -> TIdx<u32> {
    if la == EOF {
        b.grm.eof_token_idx()
    } else {
        b.tok[la]
    }
}

/// LR(1) certificate. Returns (violations as strings, #items checked, #cells checked).
pub fn certificate(ag: &AG, b: &Built, sg: &StateGraph<u32>, st: &StateTable<u32>, require_all_actions: bool) -> (Vec<String>, u64, u64) {
    let grm = &b.grm;
    let mut errs: Vec<String> = vec![];
    let mut nitems = 0u64;
    let mut ncells = 0u64;
    let nul = nullable(ag);
    let firsts = first_sets(ag);
    // 1. start state
    let start = sg.start_state();
    if st.start_state() != start {
        errs.push("state table and state graph disagree on the start state".into());
    }
    {
        let core = sg.core_state(start);
        let ok = core.items.len() == 1
            && core.items.get(&(grm.start_prod(), SIdx(0))).map(|c| ctx_to_set(b, c)) == Some([EOF].into_iter().collect());
        if !ok {
            errs.push("start state's core is not [^ -> . S, {$}]".into());
        }
    }
    for s in sg.iter_stidxs() {
        let closed = sg.closed_state(s);
        let core = sg.core_state(s);
        // core ⊆ closed with lookaheads ⊆
        for ((p, d), c) in &core.items {
            match closed.items.get(&(*p, *d)) {
                None => errs.push(format!("state {}: core item ({},{}) missing from the closed state", usize::from(s), usize::from(*p), usize::from(*d))),
                Some(cc) => {
                    if !ctx_to_set(b, c).is_subset(&ctx_to_set(b, cc)) {
                        errs.push(format!("state {}: closed item has fewer lookaheads than its core item", usize::from(s)));
                    }
                }
            }
        }
        // 2. closure
        let mut next_syms: BTreeSet<ASym> = BTreeSet::new();
        for ((p, d), c) in &closed.items {
            nitems += 1;
            let Some(rhs) = ag_rhs(ag, b, *p) else {
                errs.push(format!("state {}: item refers to unknown production {}", usize::from(s), usize::from(*p)));
                continue;
            };
            let d = usize::from(*d);
            if d > rhs.len() {
                errs.push(format!("state {}: dot beyond the end of production {}", usize::from(s), usize::from(*p)));
                continue;
            }
            if d < rhs.len() {
                next_syms.insert(rhs[d]);
                if let ASym::R(br) = rhs[d] {
                    let la = ctx_to_set(b, c);
                    let need = first_of_seq(ag, &firsts, &nul, &rhs[d + 1..], &la);
                    for bp in &b.prod[br] {
                        match closed.items.get(&(*bp, SIdx(0))) {
                            None => errs.push(format!("state {}: closure item [{} -> . ...] missing", usize::from(s), ag.rules[br].name)),
                            Some(cc) => {
                                let have = ctx_to_set(b, cc);
                                if !need.is_subset(&have) {
                                    errs.push(format!(
                                        "state {}: closure item [{} -> . ...] lacks lookaheads {:?} required by FIRST(beta L)",
                                        usize::from(s),
                                        ag.rules[br].name,
                                        need.difference(&have).collect::<Vec<_>>()
                                    ));
                                }
                            }
                        }
                    }
                }
            }
        }
        // 3. transitions
        for x in &next_syms {
            let sym = match x {
                ASym::T(t) => Symbol::Token(b.tok[*t]),
                ASym::R(r) => Symbol::Rule(b.rule[*r]),
            };
            match sg.edge(s, sym) {
                None => errs.push(format!("state {}: no edge on {}", usize::from(s), ag.pp_sym(x))),
                Some(t) => {
                    let tcore = sg.core_state(t);
                    let mut want: Vec<((PIdx<u32>, SIdx<u32>), BTreeSet<usize>)> = vec![];
                    for ((p, d), c) in &closed.items {
                        let rhs = ag_rhs(ag, b, *p).unwrap_or_default();
                        let du = usize::from(*d);
                        if du < rhs.len() && rhs[du] == *x {
                            want.push(((*p, SIdx((du + 1) as u32)), ctx_to_set(b, c)));
                        }
                    }
                    if tcore.items.len() != want.len() {
                        errs.push(format!("state {} --{}--> {}: target core has {} items, expected {}", usize::from(s), ag.pp_sym(x), usize::from(t), tcore.items.len(), want.len()));
                    }
                    for (k, la) in &want {
                        match tcore.items.get(k) {
                            None => errs.push(format!("state {} --{}--> {}: advanced kernel item missing from the target core", usize::from(s), ag.pp_sym(x), usize::from(t))),
                            Some(c) => {
                                if !la.is_subset(&ctx_to_set(b, c)) {
                                    errs.push(format!("state {} --{}--> {}: target kernel lookaheads do not include the source's", usize::from(s), ag.pp_sym(x), usize::from(t)));
                                }
                            }
                        }
                    }
                }
            }
            if let ASym::R(r) = x {
                if st.goto(s, b.rule[*r]) != sg.edge(s, sym) {
                    errs.push(format!("state {}: goto on {} differs from the graph edge", usize::from(s), ag.pp_sym(x)));
                }
            }
        }
        // 4. cells
        for t in grm.iter_tidxs() {
            ncells += 1;
            match st.action(s, t) {
                Action::Reduce(p) => {
                    let ok = closed.items.get(&(p, grm.prod_len(p))).is_some_and(|c| c.get(usize::from(t)) == Some(true));
                    if !ok {
                        errs.push(format!("state {}: Reduce({}) on token {} is not justified by a complete item with that lookahead", usize::from(s), usize::from(p), usize::from(t)));
                    }
                }
                Action::Shift(n) => {
                    if sg.edge(s, Symbol::Token(t)) != Some(n) {
                        errs.push(format!("state {}: Shift({}) on token {} is not the graph's edge", usize::from(s), usize::from(n), usize::from(t)));
                    }
                }
                Action::Accept => {
                    let ok = t == grm.eof_token_idx() && closed.items.get(&(grm.start_prod(), SIdx(1))).is_some_and(|c| c.get(usize::from(t)) == Some(true));
                    if !ok {
                        errs.push(format!("state {}: Accept not justified", usize::from(s)));
                    }
                }
                Action::Error => {}
            }
        }
        if require_all_actions {
            for ((p, d), c) in &closed.items {
                if *d == grm.prod_len(*p) {
                    for t in c.iter_set_bits(..) {
                        let a = st.action(s, TIdx(t as u32));
                        let ok = if *p == grm.start_prod() { a == Action::Accept } else { a == Action::Reduce(*p) };
                        if !ok {
                            errs.push(format!("state {}: complete item {} with lookahead {} but the cell holds {:?} (conflict-free table lost an action)", usize::from(s), usize::from(*p), t, a));
                        }
                    }
                }
            }
            for (sym, tgt) in sg.edges(s) {
                if let Symbol::Token(t) = sym {
                    if st.action(s, *t) != Action::Shift(*tgt) {
                        errs.push(format!("state {}: token edge on {} but the cell is not that shift", usize::from(s), usize::from(*t)));
                    }
                }
            }
        }
    }
    errs.truncate(10);
    (errs, nitems, ncells)
}

fn enumerate_strings(ntok: usize, maxlen: usize) -> Vec<Vec<usize>> {
    let mut out = vec![vec![]];
    let mut layer: Vec<Vec<usize>> = vec![vec![]];
    for _ in 0..maxlen {
        let mut next = vec![];
        for s in &layer {
            for t in 0..ntok {
                let mut v = s.clone();
                v.push(t);
                next.push(v);
            }
        }
        out.extend(next.iter().cloned());
        layer = next;
    }
    out
}

impl Check for C01 {
    fn id(&self) -> &'static str {
        "C01"
    }
    fn ncases(&self, tier: Tier) -> u64 {
        tier.sz(80000, 1500000)
    }
    fn rule(&self) -> &'static str {
        "one generated grammar per case (families: random-small, nullable-heavy, recursive, LR(1)-not-LALR templates, precedence expression grammars, dangling else, reduce/reduce), built with from_yacc; LR(1) certificate checked on every state/item/cell; then sampled sentences, 1-3-edit mutants, random strings and (small alphabets) every string up to length 4/5 parsed with recovery off: accepted => valid derivation of exactly the input; conflict-free precedence-free grammars additionally accepted <=> Earley member. Non-trivial = grammar has >= 2 rules and a recursive or nullable rule and both an accepted and a rejected input were observed; distinct by normalised grammar text."
    }
    fn assumptions(&self) -> Vec<&'static str> {
        vec![
            "completeness (accept every sentence) is only asserted when construction reports no conflicts AND the grammar has no precedence declarations (a %nonassoc/%left resolution deliberately removes sentences)",
            "reference FIRST/nullable and the Earley recogniser are the harness's own (refs.rs)",
        ]
    }
    fn floor(&self, tier: Tier) -> u64 {
        tier.sz(8000, 100000)
    }
    fn required_counters(&self, _t: Tier) -> Vec<&'static str> {
        vec!["certified_states", "accepted", "rejected", "completeness_checked", "exhaustive_strings"]
    }
    fn run_case(&self, seed: u64, idx: u64, tier: Tier) -> CaseOut {
        // thorough tier: every third case draws its random grammars from the medium-sized family
        set_size_boost(tier == Tier::Thorough && idx % 3 == 1);
        let mut out = CaseOut::new();
        let mut rng = Rng::derive(seed, "C01", idx, 0);
        let ag = if rng.chance(1, 2) { gen_lr1(&mut rng) } else { gen_mixed(&mut rng, true) };
        out.count(&format!("family_{}", ag.family), 1);
        let b = match build_grm(&ag) {
            Ok(b) => b,
            Err(e) => {
                out.violate("grammar-build-failed", &["harness"], format!("generated grammar was rejected: {e}"), ag.to_json());
                return out;
            }
        };
        let (sg, st) = match guarded(|| b.table()) {
            Ok(Ok(x)) => x,
            Ok(Err(_)) => {
                out.count("from_yacc_err", 1);
                out.evals += 1;
                return out;
            }
            Err(p) => {
                out.violate("panic", &["from_yacc"], format!("from_yacc panicked: {p}"), ag.to_json());
                return out;
            }
        };
        out.evals += 1;
        let conflict_free = st.conflicts().is_none();
        let complete_ok = conflict_free && ag.precs.is_empty();
        // layer 1
        let (errs, nitems, ncells) = certificate(&ag, &b, &sg, &st, complete_ok);
        out.count("certified_states", usize::from(sg.all_states_len()) as u64);
        out.count("certified_items", nitems);
        out.count("certified_cells", ncells);
        for e in errs {
            out.violate("certificate", &[], e, ag.to_json());
        }
        if has_derivation_cycle(&ag) {
            out.count("cyclic_grammars_not_parsed", 1);
            return out;
        }
        if table_has_reduce_loop(&b.grm, usize::from(sg.all_states_len()), &st) {
            if conflict_free {
                out.violate("reduce-loop", &[], "conflict-free table of an acyclic grammar has an endless reduction loop".into(), ag.to_json());
            }
            out.count("reduce_loop_grammars_not_parsed", 1);
            return out;
        }
        // layers 2+3
        let ea = Earley::new(&ag);
        let nt = ag.tokens.len();
        let mut inputs: Vec<Vec<usize>> = vec![vec![]];
        let maxd = tier.sz(6, 9) as usize;
        for _ in 0..tier.sz(20, 50) {
            let d = rng.range(1, maxd);
            if let Some(s) = sample_sentence(&ag, &mut rng, ag.start, d) {
                if s.len() <= tier.sz(14, 24) as usize {
                    let ne = rng.range(1, 3);
                    inputs.push(mutate(&mut rng, &s, nt, ne));
                    inputs.push(s);
                }
            }
        }
        for _ in 0..tier.sz(15, 40) {
            inputs.push(random_tokens(&mut rng, nt, tier.sz(8, 14) as usize));
        }
        let exh_len = tier.sz(4, 5) as usize;
        let mut n_exh = 0;
        if nt <= 3 || (tier == Tier::Thorough && nt <= 4) {
            let all = enumerate_strings(nt, exh_len);
            n_exh = all.len();
            inputs.extend(all);
        }
        out.count("exhaustive_strings", n_exh as u64);
        let mut n_acc = 0u64;
        let mut n_rej = 0u64;
        let root = u32::from(b.rule[ag.start]);
        for inp in &inputs {
            let toks: Vec<TIdx<u32>> = inp.iter().map(|t| b.tok[*t]).collect();
            let si = syn_input(&toks, &mut rng, true);
            let res = guarded(|| parse_tree(&b.grm, &st, &si, RecoveryKind::None, &|_| 1));
            out.evals += 1;
            let detail = || json!({"grammar": b.src, "input": inp.iter().map(|t| ag.tokens[*t].name.clone()).collect::<Vec<_>>()});
            let (tree, errs) = match res {
                Ok(x) => x,
                Err(p) => {
                    out.violate("panic", &["parse"], format!("parse panicked: {p}"), detail());
                    continue;
                }
            };
            let accepted = tree.is_some() && errs.is_empty();
            if accepted {
                n_acc += 1;
                let t = tree.unwrap();
                if let Err(e) = validate_derivation(&b.grm, &t) {
                    out.violate("invalid-derivation", &[], e, detail());
                }
                match &t {
                    Tree::Nonterm { ridx, .. } if *ridx == root => {}
                    _ => out.violate("invalid-derivation", &[], "root of the tree is not the start rule".into(), detail()),
                }
                let mut lv = vec![];
                t.leaves(&mut lv);
                let want: Vec<Tree> = si.lexemes.iter().map(|l| term_of(*l)).collect();
                if lv.len() != want.len() || lv.iter().zip(want.iter()).any(|(a, b)| **a != *b) {
                    out.violate("leaves-mismatch", &[], "leaves of the returned tree are not the input lexemes in order".into(), detail());
                }
                out.count("trees_validated", 1);
            } else {
                n_rej += 1;
                if tree.is_some() {
                    out.violate("value-with-errors", &[], "recovery is off but a value was returned together with errors".into(), detail());
                }
            }
            if complete_ok {
                out.count("completeness_checked", 1);
                let m = ea.member(inp);
                if m != accepted {
                    out.violate(
                        if m { "sentence-rejected" } else { "non-sentence-accepted" },
                        &[],
                        format!("parser accepted = {accepted}, Earley member = {m}"),
                        detail(),
                    );
                }
            } else if accepted && !ea.member(inp) {
                out.violate("non-sentence-accepted", &[], "accepted input is not a sentence (Earley)".into(), detail());
            }
        }
        out.count("accepted", n_acc);
        out.count("rejected", n_rej);
        if conflict_free {
            out.count("conflict_free_grammars", 1);
        }
        let nul = nullable(&ag);
        let recursive = (0..ag.rules.len()).any(|r| has_path(&ag, r, r));
        if ag.rules.len() >= 2 && (recursive || nul.iter().any(|x| *x)) && n_acc > 0 && n_rej > 0 {
            out.nontrivial(hash_str(&ag.normal_form()));
        }
        if idx % 97 == 0 {
            out.sample = Some(json!({"grammar": b.src, "family": ag.family, "states": usize::from(sg.all_states_len()), "conflict_free": conflict_free, "inputs_parsed": inputs.len(), "accepted": n_acc, "rejected": n_rej,
                "example_input": inputs.get(1).map(|i| i.iter().map(|t| ag.tokens[*t].name.clone()).collect::<Vec<_>>())}));
        }
        out
    }
}

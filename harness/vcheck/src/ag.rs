//! Abstract grammars: the harness's own notion of a grammar, independent of grmtools' analysis
//! of it. Generators (families), a plain renderer to `.y` text, and the link to a built
//! `YaccGrammar` (by name).

use crate::rng::Rng;
use cfgrammar::yacc::{YaccGrammar, YaccKind, YaccOriginalActionKind};
use cfgrammar::{PIdx, RIdx, Symbol, TIdx};
use lrtable::{from_yacc, Minimiser, StateGraph, StateTable};
use serde_json::{json, Value};

#[derive(Clone, Copy, Debug, PartialEq, Eq, Hash, PartialOrd, Ord)]
pub enum ASym {
    T(usize),
    R(usize),
}

#[derive(Clone, Copy, Debug, PartialEq, Eq)]
pub enum Assoc {
    Left,
    Right,
    Nonassoc,
}

#[derive(Clone, Debug, PartialEq)]
pub struct AProd {
    pub syms: Vec<ASym>,
    /// %prec token (index into tokens)
    pub prec: Option<usize>,
    pub action: Option<String>,
}

#[derive(Clone, Debug, PartialEq)]
pub struct ARule {
    pub name: String,
    pub prods: Vec<AProd>,
    pub actiontype: Option<String>,
}

#[derive(Clone, Debug, PartialEq)]
pub struct AToken {
    pub name: String,
    /// declared with %token (then usable bare in rules)
    pub declared: bool,
}

#[derive(Clone, Copy, Debug, PartialEq, Eq)]
pub enum AKind {
    OriginalNoAction,
    OriginalGeneric,
    OriginalUser,
    Grmtools,
    Eco,
}

impl AKind {
    pub fn yacckind(self) -> YaccKind {
        match self {
            AKind::OriginalNoAction => YaccKind::Original(YaccOriginalActionKind::NoAction),
            AKind::OriginalGeneric => YaccKind::Original(YaccOriginalActionKind::GenericParseTree),
            AKind::OriginalUser => YaccKind::Original(YaccOriginalActionKind::UserAction),
            AKind::Grmtools => YaccKind::Grmtools,
            AKind::Eco => YaccKind::Eco,
        }
    }
    pub fn name(self) -> &'static str {
        match self {
            AKind::OriginalNoAction => "Original(NoAction)",
            AKind::OriginalGeneric => "Original(GenericParseTree)",
            AKind::OriginalUser => "Original(UserAction)",
            AKind::Grmtools => "Grmtools",
            AKind::Eco => "Eco",
        }
    }
}

#[derive(Clone, Debug, PartialEq)]
pub struct AG {
    pub kind: AKind,
    pub rules: Vec<ARule>,
    pub tokens: Vec<AToken>,
    pub start: usize,
    /// precedence levels, lowest first: (assoc, tokens)
    pub precs: Vec<(Assoc, Vec<usize>)>,
    pub expect: Option<usize>,
    pub expectrr: Option<usize>,
    pub avoid_insert: Vec<usize>,
    pub epp: Vec<(usize, String)>,
    pub implicit_tokens: Vec<usize>,
    pub parse_param: Option<(String, String)>,
    pub family: &'static str,
}

impl AG {
    pub fn new(kind: AKind, family: &'static str) -> AG {
        AG {
            kind,
            rules: vec![],
            tokens: vec![],
            start: 0,
            precs: vec![],
            expect: None,
            expectrr: None,
            avoid_insert: vec![],
            epp: vec![],
            implicit_tokens: vec![],
            parse_param: None,
            family,
        }
    }
    pub fn tok(&mut self, name: &str) -> usize {
        if let Some(i) = self.tokens.iter().position(|t| t.name == name) {
            return i;
        }
        self.tokens.push(AToken { name: name.to_string(), declared: false });
        self.tokens.len() - 1
    }
    pub fn rule(&mut self, name: &str) -> usize {
        if let Some(i) = self.rules.iter().position(|t| t.name == name) {
            return i;
        }
        self.rules.push(ARule { name: name.to_string(), prods: vec![], actiontype: None });
        self.rules.len() - 1
    }
    pub fn add_prod(&mut self, r: usize, syms: Vec<ASym>) {
        self.rules[r].prods.push(AProd { syms, prec: None, action: None });
    }
    /// Build from a compact description: "S: 'a' S 'b' | ; T: S;" (names starting with a
    /// lowercase/quoted char are tokens when quoted; bare identifiers are rules).
    pub fn from_spec(kind: AKind, family: &'static str, spec: &str) -> AG {
        let mut g = AG::new(kind, family);
        // first pass: rule names
        for part in spec.split(';') {
            let part = part.trim();
            if part.is_empty() {
                continue;
            }
            let (name, _) = part.split_once(':').expect("rule needs ':'");
            g.rule(name.trim());
        }
        for part in spec.split(';') {
            let part = part.trim();
            if part.is_empty() {
                continue;
            }
            let (name, body) = part.split_once(':').unwrap();
            let r = g.rule(name.trim());
            for alt in body.split('|') {
                let mut syms = vec![];
                for w in alt.split_whitespace() {
                    if let Some(t) = w.strip_prefix('\'') {
                        let t = t.strip_suffix('\'').unwrap();
                        let ti = g.tok(t);
                        syms.push(ASym::T(ti));
                    } else {
                        let ri = g.rules.iter().position(|x| x.name == w).unwrap_or_else(|| panic!("unknown rule {w} in spec"));
                        syms.push(ASym::R(ri));
                    }
                }
                g.add_prod(r, syms);
            }
        }
        g
    }
    /// Remove tokens that occur nowhere (productions, %prec, declarations that would keep them alive).
    pub fn compact(&mut self) {
        let any_tok = self.rules.iter().any(|r| r.prods.iter().any(|p| p.syms.iter().any(|s| matches!(s, ASym::T(_)))));
        if !any_tok {
            let t = self.tok("a");
            let st = self.start;
            self.add_prod(st, vec![ASym::T(t)]);
        }
        let n = self.tokens.len();
        let mut used = vec![false; n];
        for r in &self.rules {
            for p in &r.prods {
                for s in &p.syms {
                    if let ASym::T(t) = s {
                        used[*t] = true;
                    }
                }
                if let Some(t) = p.prec {
                    used[t] = true;
                }
            }
        }
        for t in self.avoid_insert.iter().chain(self.implicit_tokens.iter()) {
            used[*t] = true;
        }
        for (i, t) in self.tokens.iter().enumerate() {
            if t.declared {
                used[i] = true;
            }
        }
        let mut map = vec![usize::MAX; n];
        let mut toks = vec![];
        for i in 0..n {
            if used[i] {
                map[i] = toks.len();
                toks.push(self.tokens[i].clone());
            }
        }
        self.tokens = toks;
        for r in self.rules.iter_mut() {
            for p in r.prods.iter_mut() {
                for s in p.syms.iter_mut() {
                    if let ASym::T(t) = s {
                        *t = map[*t];
                    }
                }
                p.prec = p.prec.map(|t| map[t]);
            }
        }
        for (_, ts) in self.precs.iter_mut() {
            ts.retain(|t| map[*t] != usize::MAX);
            for t in ts.iter_mut() {
                *t = map[*t];
            }
        }
        self.precs.retain(|(_, ts)| !ts.is_empty());
        for t in self.avoid_insert.iter_mut().chain(self.implicit_tokens.iter_mut()) {
            *t = map[*t];
        }
        self.epp.retain(|(t, _)| map[*t] != usize::MAX);
        for (t, _) in self.epp.iter_mut() {
            *t = map[*t];
        }
    }
    pub fn nprods(&self) -> usize {
        self.rules.iter().map(|r| r.prods.len()).sum()
    }
    /// precedence (level, assoc) of a token per the declarations
    pub fn token_prec(&self, t: usize) -> Option<(usize, Assoc)> {
        for (lvl, (a, toks)) in self.precs.iter().enumerate() {
            if toks.contains(&t) {
                return Some((lvl, *a));
            }
        }
        None
    }
    /// precedence of a production: %prec token, else last token of the production
    pub fn prod_prec(&self, r: usize, p: usize) -> Option<(usize, Assoc)> {
        let pr = &self.rules[r].prods[p];
        if let Some(t) = pr.prec {
            return self.token_prec(t);
        }
        for s in pr.syms.iter().rev() {
            if let ASym::T(t) = s {
                return self.token_prec(*t);
            }
        }
        None
    }
    pub fn pp_sym(&self, s: &ASym) -> String {
        match s {
            ASym::T(t) => format!("'{}'", self.tokens[*t].name),
            ASym::R(r) => self.rules[*r].name.clone(),
        }
    }
    /// a stable textual form used for hashing / samples
    pub fn normal_form(&self) -> String {
        let mut s = String::new();
        s.push_str(&format!("%start {} ", self.rules[self.start].name));
        for (a, ts) in &self.precs {
            s.push_str(&format!("%{:?}", a));
            for t in ts {
                s.push_str(&format!(" '{}'", self.tokens[*t].name));
            }
            s.push(' ');
        }
        for r in &self.rules {
            s.push_str(&format!("{}:", r.name));
            for (i, p) in r.prods.iter().enumerate() {
                if i > 0 {
                    s.push_str(" |");
                }
                for y in &p.syms {
                    s.push(' ');
                    s.push_str(&self.pp_sym(y));
                }
                if let Some(t) = p.prec {
                    s.push_str(&format!(" %prec '{}'", self.tokens[t].name));
                }
            }
            s.push_str("; ");
        }
        s
    }

    /// Plain rendering to `.y` text (rule by rule, productions in order). All tokens quoted unless declared.
    pub fn render(&self) -> String {
        let mut s = String::new();
        let declared: Vec<&AToken> = self.tokens.iter().filter(|t| t.declared).collect();
        if !declared.is_empty() {
            s.push_str("%token");
            for t in declared {
                s.push(' ');
                s.push_str(&t.name);
            }
            s.push('\n');
        }
        s.push_str(&format!("%start {}\n", self.rules[self.start].name));
        if self.kind == AKind::OriginalUser {
            s.push_str("%actiontype String\n");
        }
        if let Some(n) = self.expect {
            s.push_str(&format!("%expect {n}\n"));
        }
        if let Some(n) = self.expectrr {
            s.push_str(&format!("%expect-rr {n}\n"));
        }
        if !self.avoid_insert.is_empty() {
            s.push_str("%avoid_insert");
            for t in &self.avoid_insert {
                s.push(' ');
                s.push_str(&self.tok_src(*t));
            }
            s.push('\n');
        }
        if !self.implicit_tokens.is_empty() && self.kind == AKind::Eco {
            s.push_str("%implicit_tokens");
            for t in &self.implicit_tokens {
                s.push(' ');
                s.push_str(&self.tok_src(*t));
            }
            s.push('\n');
        }
        for (t, e) in &self.epp {
            s.push_str(&format!("%epp {} \"{}\"\n", self.tok_src(*t), e.replace('"', "\\\"")));
        }
        if let Some((n, t)) = &self.parse_param {
            s.push_str(&format!("%parse-param {n}: {t}\n"));
        }
        for (a, ts) in &self.precs {
            s.push_str(match a {
                Assoc::Left => "%left",
                Assoc::Right => "%right",
                Assoc::Nonassoc => "%nonassoc",
            });
            for t in ts {
                s.push(' ');
                s.push_str(&self.tok_src(*t));
            }
            s.push('\n');
        }
        s.push_str("%%\n");
        for r in &self.rules {
            s.push_str(&r.name);
            if self.kind == AKind::Grmtools {
                s.push_str(&format!(" -> {}", r.actiontype.as_deref().unwrap_or("()")));
            }
            s.push(':');
            for (i, p) in r.prods.iter().enumerate() {
                if i > 0 {
                    s.push_str("\n  |");
                }
                for y in &p.syms {
                    s.push(' ');
                    match y {
                        ASym::T(t) => s.push_str(&self.tok_src(*t)),
                        ASym::R(r) => s.push_str(&self.rules[*r].name),
                    }
                }
                if let Some(t) = p.prec {
                    s.push_str(&format!(" %prec {}", self.tok_src(t)));
                }
                if let Some(a) = &p.action {
                    s.push_str(&format!(" {{ {a} }}"));
                }
            }
            s.push_str("\n  ;\n");
        }
        s
    }
    pub fn tok_src(&self, t: usize) -> String {
        let tk = &self.tokens[t];
        if tk.declared {
            tk.name.clone()
        } else if tk.name.contains('\'') {
            format!("\"{}\"", tk.name)
        } else {
            format!("'{}'", tk.name)
        }
    }
    pub fn to_json(&self) -> Value {
        json!({"kind": self.kind.name(), "family": self.family, "grammar": self.render()})
    }
}

// ---------------------------------------------------------------------------------------------
// Built grammar: the grmtools objects for an AG plus the name-based index maps

pub struct Built {
    pub src: String,
    pub grm: YaccGrammar<u32>,
    /// AG token index -> TIdx
    pub tok: Vec<TIdx<u32>>,
    /// AG rule index -> RIdx
    pub rule: Vec<RIdx<u32>>,
    /// AG (rule, prod) -> PIdx
    pub prod: Vec<Vec<PIdx<u32>>>,
    /// inverse maps
    pub tidx_to_ag: Vec<Option<usize>>,
    pub ridx_to_ag: Vec<Option<usize>>,
    pub pidx_to_ag: Vec<Option<(usize, usize)>>,
}

pub fn build_grm(ag: &AG) -> Result<Built, String> {
    build_grm_src(ag, ag.render())
}

pub fn build_grm_src(ag: &AG, src: String) -> Result<Built, String> {
    let grm = YaccGrammar::<u32>::new(ag.kind.yacckind(), &src).map_err(|e| format!("YaccGrammar::new failed: {e:?}\n{src}"))?;
    let mut tok = vec![];
    for t in &ag.tokens {
        match grm.token_idx(&t.name) {
            Some(i) => tok.push(i),
            None => return Err(format!("token {} missing from built grammar\n{src}", t.name)),
        }
    }
    let mut rule = vec![];
    for r in &ag.rules {
        match grm.rule_idx(&r.name) {
            Some(i) => rule.push(i),
            None => return Err(format!("rule {} missing from built grammar\n{src}", r.name)),
        }
    }
    let mut prod = vec![];
    for (ri, r) in ag.rules.iter().enumerate() {
        let ps = grm.rule_to_prods(rule[ri]);
        if ps.len() != r.prods.len() {
            return Err(format!("rule {} has {} productions in the built grammar, {} in the source\n{src}", r.name, ps.len(), r.prods.len()));
        }
        prod.push(ps.to_vec());
    }
    let mut tidx_to_ag = vec![None; usize::from(grm.tokens_len())];
    for (i, t) in tok.iter().enumerate() {
        tidx_to_ag[usize::from(*t)] = Some(i);
    }
    let mut ridx_to_ag = vec![None; usize::from(grm.rules_len())];
    for (i, r) in rule.iter().enumerate() {
        ridx_to_ag[usize::from(*r)] = Some(i);
    }
    let mut pidx_to_ag = vec![None; usize::from(grm.prods_len())];
    for (ri, ps) in prod.iter().enumerate() {
        for (pi, p) in ps.iter().enumerate() {
            pidx_to_ag[usize::from(*p)] = Some((ri, pi));
        }
    }
    Ok(Built { src, grm, tok, rule, prod, tidx_to_ag, ridx_to_ag, pidx_to_ag })
}

impl Built {
    /// Does the built production spell the AG production (ignoring Eco implicit-rule insertions)?
    pub fn prod_matches(&self, ag: &AG, ri: usize, pi: usize) -> bool {
        let p = self.grm.prod(self.prod[ri][pi]);
        let want: Vec<Symbol<u32>> = ag.rules[ri].prods[pi]
            .syms
            .iter()
            .map(|s| match s {
                ASym::T(t) => Symbol::Token(self.tok[*t]),
                ASym::R(r) => Symbol::Rule(self.rule[*r]),
            })
            .collect();
        let imp = self.grm.implicit_rule();
        let got: Vec<Symbol<u32>> = p.iter().filter(|s| !matches!((s, imp), (Symbol::Rule(r), Some(i)) if *r == i)).cloned().collect();
        got == want
    }
    pub fn table(&self) -> Result<(StateGraph<u32>, StateTable<u32>), String> {
        from_yacc(&self.grm, Minimiser::Pager).map_err(|e| format!("{e}"))
    }
}

// ---------------------------------------------------------------------------------------------
// generators

const TOKNAMES: [&str; 12] = ["a", "b", "c", "d", "e", "f", "g", "h", "i", "j", "k", "l"];
const RULENAMES: [&str; 12] = ["S", "A", "B", "C", "D", "E", "F", "G", "H", "I", "J", "K"];

pub struct GenOpts {
    pub max_rules: usize,
    pub max_tokens: usize,
    pub max_alts: usize,
    pub max_syms: usize,
    /// percentage chance of an empty alternative per rule
    pub empty_pct: u32,
    /// ensure every rule is productive and reachable
    pub reduced: bool,
}

impl Default for GenOpts {
    fn default() -> Self {
        GenOpts { max_rules: 6, max_tokens: 5, max_alts: 4, max_syms: 4, empty_pct: 20, reduced: true }
    }
}

thread_local! {
    static SIZE_BOOST: std::cell::Cell<bool> = const { std::cell::Cell::new(false) };
}

/// Thorough-tier option of the table checks: while set, `gen_random` draws medium-sized grammars
/// (up to 11 rules / 8 tokens instead of 6 / 5). Set explicitly at the start of every case.
pub fn set_size_boost(on: bool) {
    SIZE_BOOST.with(|c| c.set(on));
}

/// Uniformly random small grammar.
pub fn gen_random(rng: &mut Rng, o: &GenOpts, family: &'static str) -> AG {
    let boosted;
    let (o, family) = if SIZE_BOOST.with(|c| c.get()) {
        boosted = GenOpts { max_rules: (o.max_rules + 5).min(RULENAMES.len()), max_tokens: (o.max_tokens + 3).min(TOKNAMES.len()), max_alts: o.max_alts, max_syms: o.max_syms + 1, empty_pct: o.empty_pct, reduced: o.reduced };
        (&boosted, if family == "random-small" { "random-medium" } else { family })
    } else {
        (o, family)
    };
    let mut g = AG::new(AKind::OriginalGeneric, family);
    let nr = rng.range(1, o.max_rules);
    let nt = rng.range(1, o.max_tokens);
    for i in 0..nr {
        g.rule(RULENAMES[i]);
    }
    for i in 0..nt {
        g.tok(TOKNAMES[i]);
    }
    for r in 0..nr {
        let na = rng.range(1, o.max_alts);
        for _ in 0..na {
            let mut syms = vec![];
            if !rng.chance(o.empty_pct, 100) {
                let ns = rng.range(1, o.max_syms);
                for _ in 0..ns {
                    if rng.chance(55, 100) {
                        syms.push(ASym::T(rng.below(nt)));
                    } else {
                        syms.push(ASym::R(rng.below(nr)));
                    }
                }
            }
            if !g.rules[r].prods.iter().any(|p| p.syms == syms) || rng.chance(1, 20) {
                g.add_prod(r, syms);
            }
        }
        if g.rules[r].prods.is_empty() {
            g.add_prod(r, vec![ASym::T(rng.below(nt))]);
        }
    }
    if o.reduced {
        make_reduced(&mut g, rng);
    }
    g
}

/// Make every rule productive (add a terminal-only alternative where needed) and reachable
/// (reference unreachable rules from reachable ones).
pub fn make_reduced(g: &mut AG, rng: &mut Rng) {
    let nt = g.tokens.len();
    // productive
    loop {
        let prod = crate::refs::productive(g);
        let mut changed = false;
        for r in 0..g.rules.len() {
            if !prod[r] {
                let t = rng.below(nt.max(1));
                if nt == 0 {
                    g.tok("a");
                }
                g.add_prod(r, vec![ASym::T(t)]);
                changed = true;
                break;
            }
        }
        if !changed {
            break;
        }
    }
    // reachable
    loop {
        let reach = crate::refs::reachable(g);
        let Some(u) = (0..g.rules.len()).find(|r| !reach[*r]) else { break };
        let from: Vec<usize> = (0..g.rules.len()).filter(|r| reach[*r]).collect();
        let f = *rng.pick(&from);
        let t = rng.below(g.tokens.len());
        // add alternative  f: t u   (keeps things deterministic-ish)
        g.add_prod(f, vec![ASym::T(t), ASym::R(u)]);
    }
}

/// Nullable-heavy: many empty alternatives, nullable symbols in first/middle/last position.
pub fn gen_nullable(rng: &mut Rng) -> AG {
    let o = GenOpts { max_rules: 6, max_tokens: 4, max_alts: 3, max_syms: 4, empty_pct: 45, reduced: true };
    let mut g = gen_random(rng, &o, "nullable-heavy");
    if rng.chance(1, 2) {
        // a chain of unit productions ending in an empty production, declared top-down, so that
        // nullability/FIRST have to travel against the declaration order over several rounds
        let depth = rng.range(2, 5);
        let base = g.rules.len();
        for i in 0..depth {
            g.rule(&format!("N{i}"));
        }
        for i in 0..depth {
            let r = base + i;
            if i + 1 < depth {
                if rng.chance(1, 4) && !g.tokens.is_empty() {
                    let t = rng.below(g.tokens.len());
                    g.add_prod(r, vec![ASym::T(t)]);
                }
                if rng.chance(1, 3) {
                    g.add_prod(r, vec![ASym::R(r + 1), ASym::R(base + rng.range(i + 1, depth - 1))]);
                } else {
                    g.add_prod(r, vec![ASym::R(r + 1)]);
                }
            } else {
                g.add_prod(r, vec![]);
            }
        }
        // use the chain head from an existing rule, before / between / after tokens
        let host = rng.below(base);
        let nt = g.tokens.len().max(1);
        let (t1, t2) = (rng.below(nt), rng.below(nt));
        if g.tokens.is_empty() {
            g.tok("a");
        }
        let syms = match rng.below(4) {
            0 => vec![ASym::R(base), ASym::T(t1)],
            1 => vec![ASym::T(t1), ASym::R(base), ASym::T(t2)],
            2 => vec![ASym::T(t1), ASym::R(base)],
            _ => vec![ASym::R(base), ASym::R(host), ASym::T(t1)],
        };
        // put the host production first half of the time (so the chain is "below" its user)
        if rng.chance(1, 2) {
            g.rules[host].prods.insert(0, AProd { syms, prec: None, action: None });
        } else {
            g.add_prod(host, syms);
        }
    }
    // force at least one production with a nullable rule in first, middle and last position
    let nul = crate::refs::nullable(&g);
    let nulls: Vec<usize> = (0..g.rules.len()).filter(|r| nul[*r]).collect();
    if !nulls.is_empty() && g.tokens.len() >= 1 {
        let n = *rng.pick(&nulls);
        let t = rng.below(g.tokens.len());
        let t2 = rng.below(g.tokens.len());
        let r = rng.below(g.rules.len());
        match rng.below(3) {
            0 => g.add_prod(r, vec![ASym::R(n), ASym::T(t)]),
            1 => g.add_prod(r, vec![ASym::T(t), ASym::R(n), ASym::T(t2)]),
            _ => g.add_prod(r, vec![ASym::T(t), ASym::R(n)]),
        }
    }
    g
}

/// Recursion-heavy: left/right/mutual recursion and unit chains.
pub fn gen_recursive(rng: &mut Rng) -> AG {
    let mut g = AG::new(AKind::OriginalGeneric, "recursive");
    let nr = rng.range(2, 6);
    let nt = rng.range(2, 5);
    for i in 0..nr {
        g.rule(RULENAMES[i]);
    }
    for i in 0..nt {
        g.tok(TOKNAMES[i]);
    }
    for r in 0..nr {
        let t = rng.below(nt);
        match rng.below(6) {
            0 => {
                // left recursion  R: R t | t
                g.add_prod(r, vec![ASym::R(r), ASym::T(t)]);
                g.add_prod(r, vec![ASym::T(rng.below(nt))]);
            }
            1 => {
                // right recursion R: t R | t
                g.add_prod(r, vec![ASym::T(t), ASym::R(r)]);
                g.add_prod(r, vec![ASym::T(rng.below(nt))]);
            }
            2 => {
                // unit chain to next
                g.add_prod(r, vec![ASym::R((r + 1) % nr)]);
                g.add_prod(r, vec![ASym::T(t)]);
            }
            3 => {
                // mutual recursion through next rule
                let n = (r + 1) % nr;
                g.add_prod(r, vec![ASym::T(t), ASym::R(n), ASym::T(rng.below(nt))]);
                g.add_prod(r, vec![ASym::T(rng.below(nt))]);
            }
            4 => {
                // list with separator: R: R t N | N
                let n = (r + 1) % nr;
                g.add_prod(r, vec![ASym::R(r), ASym::T(t), ASym::R(n)]);
                g.add_prod(r, vec![ASym::R(n)]);
            }
            _ => {
                // bracketed recursion R: t R t2 | empty
                g.add_prod(r, vec![ASym::T(t), ASym::R(r), ASym::T(rng.below(nt))]);
                g.add_prod(r, vec![]);
            }
        }
    }
    make_reduced(&mut g, rng);
    g
}

/// LR(1)-but-not-LALR(1) templates, optionally embedded in a larger random grammar.
pub fn gen_nonlalr(rng: &mut Rng) -> AG {
    let specs: [&str; 6] = [
        // classic
        "S: 'a' E 'a' | 'b' E 'b' | 'a' F 'b' | 'b' F 'a'; E: 'e'; F: 'e';",
        // with longer common handle
        "S: 'a' E 'c' | 'a' F 'd' | 'b' F 'c' | 'b' E 'd'; E: 'e' 'e'; F: 'e' 'e';",
        // Pager 1977 style (G1-like)
        "X: 'a' Y 'd' | 'a' Z 'c' | 'a' T | 'b' Y 'e' | 'b' Z 'd' | 'b' T; Y: 't' W | 'u' X; Z: 't' 'u'; T: 'u' X 'a'; W: 'u' V; V: ;",
        // nullable handles
        "S: 'a' E 'a' | 'b' E 'b' | 'a' F 'b' | 'b' F 'a'; E: G 'e'; F: G 'e'; G: ;",
        // recursive contexts
        "S: 'a' E 'a' | 'b' E 'b' | 'a' F 'b' | 'b' F 'a' | 'c' S 'c'; E: 'e' | E 'e'; F: 'e';",
        // three-way
        "S: 'a' E 'a' | 'b' E 'b' | 'c' E 'c' | 'a' F 'b' | 'b' F 'c' | 'c' F 'a'; E: 'e'; F: 'e';",
    ];
    let mut g = AG::from_spec(AKind::OriginalGeneric, "lr1-not-lalr", *rng.pick(&specs[..]));
    if rng.chance(1, 2) {
        // embed: new start rule wrapping the template inside extra context
        let old_start = g.start;
        let w = g.rule("W0");
        let t1 = g.tok("x");
        let t2 = g.tok("y");
        match rng.below(3) {
            0 => {
                g.add_prod(w, vec![ASym::T(t1), ASym::R(old_start), ASym::T(t2)]);
                g.add_prod(w, vec![ASym::R(old_start)]);
            }
            1 => {
                g.add_prod(w, vec![ASym::R(w), ASym::T(t1), ASym::R(old_start)]);
                g.add_prod(w, vec![ASym::R(old_start)]);
            }
            _ => {
                g.add_prod(w, vec![ASym::R(old_start), ASym::R(old_start)]);
                g.add_prod(w, vec![ASym::T(t2)]);
            }
        }
        g.start = w;
    }
    g
}

/// Ambiguous expression grammars with random precedence declarations.
pub fn gen_expr(rng: &mut Rng) -> AG {
    let mut g = AG::new(AKind::OriginalGeneric, "expr-prec");
    let e = g.rule("E");
    let ops = ["+", "-", "*", "/", "^", "<", "=", "?"];
    let nops = rng.range(1, 5);
    let mut optoks = vec![];
    for o in ops.iter().take(nops) {
        optoks.push(g.tok(o));
    }
    let n = g.tok("n");
    for &o in &optoks {
        g.add_prod(e, vec![ASym::R(e), ASym::T(o), ASym::R(e)]);
    }
    if rng.chance(1, 2) {
        // unary minus with %prec
        let um = g.tok("UM");
        let minus = if optoks.len() > 1 { optoks[1] } else { optoks[0] };
        g.add_prod(e, vec![ASym::T(minus), ASym::R(e)]);
        if rng.chance(3, 4) {
            let l = g.rules[e].prods.len() - 1;
            g.rules[e].prods[l].prec = Some(um);
            // UM needs a precedence: add to some level below
            optoks.push(um);
        }
    }
    if rng.chance(1, 3) {
        let lp = g.tok("(");
        let rp = g.tok(")");
        g.add_prod(e, vec![ASym::T(lp), ASym::R(e), ASym::T(rp)]);
    }
    if rng.chance(2, 5) {
        // mixfix / ternary / postfix-marked productions: the *last* token decides the precedence
        let o1 = *rng.pick(&optoks);
        let extra = ["?", ":", "!", "x"];
        let o2 = if rng.chance(1, 2) { *rng.pick(&optoks) } else { let t = g.tok(*rng.pick(&extra[..])); if rng.chance(1, 2) { optoks.push(t); } t };
        match rng.below(3) {
            0 => g.add_prod(e, vec![ASym::R(e), ASym::T(o1), ASym::R(e), ASym::T(o2), ASym::R(e)]),
            1 => g.add_prod(e, vec![ASym::R(e), ASym::T(o1), ASym::R(e), ASym::T(o2)]),
            _ => g.add_prod(e, vec![ASym::T(o2), ASym::R(e), ASym::T(o1), ASym::R(e)]),
        }
    }
    if rng.chance(1, 4) {
        // juxtaposition (application): E: E E
        g.add_prod(e, vec![ASym::R(e), ASym::R(e)]);
    }
    g.add_prod(e, vec![ASym::T(n)]);
    // precedence levels: some operators may be left without precedence
    let mut pool = optoks.clone();
    rng.shuffle(&mut pool);
    let nlev = rng.range(0, 4);
    let mut precs: Vec<(Assoc, Vec<usize>)> = vec![];
    for _ in 0..nlev {
        if pool.is_empty() {
            break;
        }
        let k = rng.range(1, pool.len().min(2));
        let toks: Vec<usize> = pool.drain(..k).collect();
        let a = *rng.pick(&[Assoc::Left, Assoc::Left, Assoc::Right, Assoc::Nonassoc]);
        precs.push((a, toks));
    }
    // a %prec token must have a precedence, otherwise the grammar is invalid
    for r in 0..g.rules.len() {
        for p in 0..g.rules[r].prods.len() {
            if let Some(t) = g.rules[r].prods[p].prec {
                if !precs.iter().any(|(_, ts)| ts.contains(&t)) {
                    if precs.is_empty() || rng.chance(1, 2) {
                        precs.push((*rng.pick(&[Assoc::Left, Assoc::Right, Assoc::Nonassoc]), vec![t]));
                    } else {
                        let l = rng.below(precs.len());
                        precs[l].1.push(t);
                    }
                }
            }
        }
    }
    g.precs = precs;
    // random %prec overrides on binary productions
    if rng.chance(1, 3) && !g.precs.is_empty() {
        let all: Vec<usize> = g.precs.iter().flat_map(|(_, t)| t.clone()).collect();
        let p = rng.below(g.rules[e].prods.len());
        if !g.rules[e].prods[p].syms.is_empty() {
            g.rules[e].prods[p].prec = Some(*rng.pick(&all));
        }
    }
    g
}

/// Dangling-else shapes.
pub fn gen_dangling(rng: &mut Rng) -> AG {
    let specs = [
        "S: 'i' S | 'i' S 'e' S | 'x';",
        "S: 'i' C S | 'i' C S 'e' S | 'x'; C: 'c' | ;",
        "L: L S | S; S: 'i' S | 'i' S 'e' S | 'x' | 'b' L 'd';",
    ];
    let mut g = AG::from_spec(AKind::OriginalGeneric, "dangling-else", *rng.pick(&specs[..]));
    match rng.below(4) {
        0 => g.expect = Some(1),
        1 => g.expect = Some(rng.below(3)),
        2 => {
            // resolve with precedence instead
            let i = g.tok("i");
            let e = g.tok("e");
            if rng.chance(1, 2) {
                g.precs = vec![(Assoc::Nonassoc, vec![i]), (Assoc::Nonassoc, vec![e])];
            } else {
                g.precs = vec![(Assoc::Right, vec![i, e])];
            }
        }
        _ => {}
    }
    g
}

/// Multi-way reduce/reduce: several rules with identical right-hand sides.
pub fn gen_rr(rng: &mut Rng) -> AG {
    let mut g = AG::new(AKind::OriginalGeneric, "reduce-reduce");
    let s = g.rule("S");
    let k = rng.range(2, 4);
    let a = g.tok("a");
    let b = g.tok("b");
    let mut rs = vec![];
    for i in 0..k {
        rs.push(g.rule(RULENAMES[i + 1]));
    }
    for (i, &r) in rs.iter().enumerate() {
        if rng.chance(1, 2) {
            g.add_prod(s, vec![ASym::R(r), ASym::T(b)]);
        } else {
            let t = g.tok(TOKNAMES[2 + (i % 3)]);
            g.add_prod(s, vec![ASym::R(r), ASym::T(if rng.chance(1, 2) { b } else { t })]);
        }
    }
    let mut order: Vec<usize> = rs.clone();
    rng.shuffle(&mut order);
    for &r in &order {
        g.add_prod(r, vec![ASym::T(a)]);
        if rng.chance(1, 3) {
            g.add_prod(r, vec![ASym::T(a), ASym::T(a)]);
        }
    }
    if rng.chance(1, 2) {
        g.expectrr = Some(rng.range(0, 3));
    }
    g
}

/// The mixed family used by most properties. `with_conflicts`: include families that usually conflict.
pub fn gen_mixed(rng: &mut Rng, with_conflicts: bool) -> AG {
    let mut g = gen_mixed_raw(rng, with_conflicts);
    g.compact();
    g
}

fn gen_mixed_raw(rng: &mut Rng, with_conflicts: bool) -> AG {
    let w: [u32; 9] = if with_conflicts { [28, 14, 14, 8, 15, 8, 7, 3, 3] } else { [36, 18, 22, 12, 0, 0, 0, 6, 6] };
    match rng.weighted(&w) {
        7 => gen_gc_seed(rng),
        8 => gen_lookahead_square(rng),
        0 => gen_random(rng, &GenOpts::default(), "random-small"),
        1 => gen_nullable(rng),
        2 => gen_recursive(rng),
        3 => gen_nonlalr(rng),
        4 => gen_expr(rng),
        5 => gen_dangling(rng),
        _ => gen_rr(rng),
    }
}

/// A grammar whose canonical LR(1) automaton (the harness's own construction) is conflict-free
/// and which has no derivation cycle. Retries the mixed generator; falls back to a template.
pub fn gen_lr1(rng: &mut Rng) -> AG {
    for _ in 0..40 {
        let mut g = gen_mixed_raw(rng, false);
        g.compact();
        if crate::refs::has_derivation_cycle(&g) {
            continue;
        }
        if let Some(c) = crate::refs::canonical_lr1(&g, 400) {
            if c.conflicts == 0 {
                return g;
            }
        }
    }
    let mut g = gen_nonlalr(rng);
    g.compact();
    g
}

/// An isomorphic copy: permute rule order (keeping the start rule's identity), alternative
/// order and token first-appearance order, and rename.
pub fn permute(g: &AG, rng: &mut Rng) -> AG {
    let nr = g.rules.len();
    let mut rperm: Vec<usize> = (0..nr).collect(); // new position -> old index
    rng.shuffle(&mut rperm);
    let mut rinv = vec![0; nr];
    for (newi, &old) in rperm.iter().enumerate() {
        rinv[old] = newi;
    }
    let ntok = g.tokens.len();
    let mut tperm: Vec<usize> = (0..ntok).collect();
    rng.shuffle(&mut tperm);
    let mut tinv = vec![0; ntok];
    for (newi, &old) in tperm.iter().enumerate() {
        tinv[old] = newi;
    }
    let mut out = g.clone();
    out.tokens = tperm.iter().map(|&o| g.tokens[o].clone()).collect();
    out.rules = rperm
        .iter()
        .map(|&o| {
            let mut r = g.rules[o].clone();
            rng.shuffle(&mut r.prods);
            for p in r.prods.iter_mut() {
                for s in p.syms.iter_mut() {
                    *s = match *s {
                        ASym::T(t) => ASym::T(tinv[t]),
                        ASym::R(x) => ASym::R(rinv[x]),
                    };
                }
                p.prec = p.prec.map(|t| tinv[t]);
            }
            r
        })
        .collect();
    out.start = rinv[g.start];
    out.precs = g.precs.iter().map(|(a, ts)| (*a, ts.iter().map(|t| tinv[*t]).collect())).collect();
    out.avoid_insert = g.avoid_insert.iter().map(|t| tinv[*t]).collect();
    out.implicit_tokens = g.implicit_tokens.iter().map(|t| tinv[*t]).collect();
    out.epp = g.epp.iter().map(|(t, s)| (tinv[*t], s.clone())).collect();
    out
}

/// "Lookahead square": n contexts (distinct prefix tokens) x m rules that all derive the same
/// handle, with the token following each rule chosen per (context, rule). States reached after
/// the handle share one core with m items and differ only in lookaheads, so whether Pager may
/// merge them depends on weak compatibility. Within a context the m lookaheads are distinct,
/// so the canonical automaton is conflict-free.
pub fn gen_lookahead_square(rng: &mut Rng) -> AG {
    let mut g = AG::new(AKind::OriginalGeneric, "lookahead-square");
    let s = g.rule("S");
    let n = rng.range(2, 4);
    let m = rng.range(2, 4);
    let pool = rng.range(m, m + 2);
    let handle_len = rng.range(1, 2);
    let nullable_tail = rng.chance(1, 4);
    let rules: Vec<usize> = (0..m).map(|i| g.rule(RULENAMES[i + 1])).collect();
    let tail = if nullable_tail { Some(g.rule("Z")) } else { None };
    let h = g.tok("h");
    for c in 0..n {
        let pre = g.tok(&format!("p{c}"));
        let mut las: Vec<usize> = (0..pool).collect();
        rng.shuffle(&mut las);
        for (i, &r) in rules.iter().enumerate() {
            if rng.chance(1, 6) && i > 0 {
                continue; // not every rule is used in every context
            }
            let la = g.tok(&format!("l{}", las[i]));
            let mut syms = vec![ASym::T(pre), ASym::R(r)];
            if let Some(z) = tail {
                syms.push(ASym::R(z));
            }
            syms.push(ASym::T(la));
            g.add_prod(s, syms);
        }
    }
    for &r in &rules {
        g.add_prod(r, vec![ASym::T(h); handle_len]);
    }
    if let Some(z) = tail {
        let zt = g.tok("z");
        g.add_prod(z, vec![]);
        g.add_prod(z, vec![ASym::T(zt)]);
    }
    if rng.chance(1, 3) {
        // recursion around the whole thing
        let w = g.rule("W0");
        let x = g.tok("x");
        g.add_prod(w, vec![ASym::R(w), ASym::T(x), ASym::R(s)]);
        g.add_prod(w, vec![ASym::R(s)]);
        g.start = w;
    }
    g.compact();
    g
}

/// Search (bounded) for a small grammar on which Pager's algorithm re-queues states and its
/// final garbage collection drops at least `min_dropped` states (observed through the lrtable
/// verification counters). `lr1_only`: additionally require the harness's canonical LR(1)
/// automaton to be conflict-free. Returns the grammar and the number of states dropped.
pub fn search_gc_grammar(rng: &mut Rng, tries: usize, min_dropped: u64, lr1_only: bool) -> Option<(AG, u64)> {
    for _ in 0..tries {
        let o = GenOpts { max_rules: 5, max_tokens: 4, max_alts: 3, max_syms: 4, empty_pct: 20, reduced: true };
        let mut g = gen_random(rng, &o, "gc-triggering");
        g.compact();
        let Ok(b) = build_grm(&g) else { continue };
        lrtable::verif::reset();
        let r = crate::frame::guarded(|| b.table());
        let (_, _, dropped) = lrtable::verif::counters();
        if dropped < min_dropped || !matches!(r, Ok(Ok(_))) {
            continue;
        }
        if crate::refs::has_derivation_cycle(&g) {
            continue;
        }
        if lr1_only {
            match crate::refs::canonical_lr1(&g, 600) {
                Some(c) if c.conflicts == 0 => {}
                _ => continue,
            }
        }
        return Some((g, dropped));
    }
    None
}

/// Conflict-free LR(1) grammars (found by `search_gc_grammar`) on which Pager's algorithm
/// re-processes states so that its final garbage collection has states to drop. Used as seeds:
/// permutations of them mostly keep that behaviour.
pub const GC_SEEDS: [&str; 8] = [
    "S: A A | 'a' | 'b' A; A: 'b' S 'c';",
    "S: 'd' 'b' 'a' 'd' | 'd' A; A: B 'd' S 'd'; B: 'd' 'a' B 'b' | 'a' 'a' A | S;",
    "S: 'c' 'a' S 'c' | B A 'a' | 'c' 'a' B; A: 'b' |; B: 'c' 'b' | 'b';",
    "S: 'c' 'c' 'c' | 'a' S | 'c' A | 'a' B; A: 'a' 'c' 'a' S; B: A S;",
    "S: 'd' 'c' | 'c' A; A: 'a' 'd' | 'c' B; B: 'b' B | 'c' S 'd' 'a' | S A A;",
    "S: 'c' 'b' B | B 'a' 'c' 'b' | 'a' A; A: 'a' S 'd' | B | 'd' B | 'c' C; B: 'c' 'a' 'b'; C: S 'd' C B | B;",
    "S: 'a' A 'b' | A 'a' 'b' 'a' | 'b'; A: 'a' 'a' A 'a' | 'b';",
    "R0: R2 'b' 'a' | | R1 R2; R1: 'c' 'c' 'a'; R2: R1 R0 'a';",
];

pub fn gen_gc_seed(rng: &mut Rng) -> AG {
    // two thirds of the time use one of the searched-for seeds on which gc drops >= 2 states
    let extra: Vec<&str> = include_str!("gc_seeds.txt").lines().filter(|l| !l.trim().is_empty()).collect();
    let spec: &str = if !extra.is_empty() && rng.chance(2, 3) { *rng.pick(&extra[..]) } else { *rng.pick(&GC_SEEDS[..]) };
    let mut g = AG::from_spec(AKind::OriginalGeneric, "gc-seed", spec);
    if rng.chance(1, 3) {
        // embed in a little context
        let old = g.start;
        let w = g.rule("W0");
        let x = g.tok("x");
        g.add_prod(w, vec![ASym::T(x), ASym::R(old), ASym::T(x)]);
        g.add_prod(w, vec![ASym::R(old)]);
        g.start = w;
    }
    g.compact();
    g
}

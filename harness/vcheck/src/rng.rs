//! Deterministic PRNG (SplitMix64) used for every random choice in the harness.

#[derive(Clone, Debug)]
pub struct Rng(pub u64);

impl Rng {
    pub fn new(seed: u64) -> Self {
        let mut r = Rng(seed ^ 0x9E37_79B9_7F4A_7C15);
        r.next();
        r
    }
    /// Derive an independent generator from (seed, property id, case index, stream).
    pub fn derive(seed: u64, prop: &str, case: u64, stream: u64) -> Self {
        let mut h = seed.wrapping_mul(0xD6E8_FEB8_6659_FD93) ^ 0xA076_1D64_78BD_642F;
        for b in prop.bytes() {
            h = (h ^ b as u64).wrapping_mul(0x1000_0000_01B3);
        }
        h ^= case.wrapping_mul(0x9E37_79B9_7F4A_7C15);
        h = h.rotate_left(23) ^ stream.wrapping_mul(0xC2B2_AE3D_27D4_EB4F);
        Rng::new(h)
    }
    pub fn next(&mut self) -> u64 {
        self.0 = self.0.wrapping_add(0x9E37_79B9_7F4A_7C15);
        let mut z = self.0;
        z = (z ^ (z >> 30)).wrapping_mul(0xBF58_476D_1CE4_E5B9);
        z = (z ^ (z >> 27)).wrapping_mul(0x94D0_49BB_1331_11EB);
        z ^ (z >> 31)
    }
    /// Uniform in 0..n (n > 0).
    pub fn below(&mut self, n: usize) -> usize {
        debug_assert!(n > 0);
        (self.next() % (n as u64)) as usize
    }
    /// Uniform in lo..=hi.
    pub fn range(&mut self, lo: usize, hi: usize) -> usize {
        lo + self.below(hi - lo + 1)
    }
    pub fn chance(&mut self, num: u32, den: u32) -> bool {
        (self.next() % den as u64) < num as u64
    }
    pub fn pick<'a, T>(&mut self, xs: &'a [T]) -> &'a T {
        &xs[self.below(xs.len())]
    }
    pub fn shuffle<T>(&mut self, xs: &mut [T]) {
        for i in (1..xs.len()).rev() {
            let j = self.below(i + 1);
            xs.swap(i, j);
        }
    }
    /// Pick an index according to integer weights.
    pub fn weighted(&mut self, ws: &[u32]) -> usize {
        let tot: u32 = ws.iter().sum();
        let mut x = (self.next() % tot as u64) as u32;
        for (i, w) in ws.iter().enumerate() {
            if x < *w {
                return i;
            }
            x -= *w;
        }
        ws.len() - 1
    }
}

/// FNV-1a hash of a string, used for distinct-case counting.
pub fn hash_str(s: &str) -> u64 {
    let mut h: u64 = 0xcbf2_9ce4_8422_2325;
    for b in s.bytes() {
        h = (h ^ b as u64).wrapping_mul(0x1000_0000_01B3);
    }
    h
}

//! C04 — a syntax error is reported at the first lexeme that cannot continue a sentence.
//! Oracle: Earley viable-prefix test per prefix (independent of the LR automaton).

use crate::ag::*;
use crate::frame::*;
use crate::lrx::*;
use crate::refs::*;
use crate::rng::{hash_str, Rng};
use cfgrammar::TIdx;
use lrpar::{LexParseError, Lexeme, RecoveryKind};
use serde_json::json;

pub struct C04;

/// lexeme index of a parse error's lexeme (n = end of input), or None if it is not where any lexeme is
pub fn error_index(si: &SynInput, e: &PErr, eof_tidx: u32) -> Result<usize, String> {
    match e {
        LexParseError::ParseError(pe) => {
            let l = pe.lexeme();
            let sp = l.span();
            if let Some(i) = si.index_of_span(sp) {
                if l.tok_id() != si.lexemes[i].tok_id() {
                    return Err(format!("error lexeme has token id {} but the input lexeme there has {}", l.tok_id(), si.lexemes[i].tok_id()));
                }
                return Ok(i);
            }
            if l.tok_id() == eof_tidx {
                if sp.is_empty() && sp.start() == si.eof_pos() {
                    return Ok(si.lexemes.len());
                }
                return Err(format!("end-of-input error lexeme has span {}..{}, expected the zero-length span at {}", sp.start(), sp.end(), si.eof_pos()));
            }
            Err(format!("error lexeme {}..{} (token {}) is not a lexeme of the input", sp.start(), sp.end(), l.tok_id()))
        }
        LexParseError::LexError(_) => Err("lexing error from the synthetic lexer".into()),
    }
}

impl Check for C04 {
    fn id(&self) -> &'static str {
        "C04"
    }
    fn ncases(&self, tier: Tier) -> u64 {
        tier.sz(40000, 600000)
    }
    fn rule(&self) -> &'static str {
        "one conflict-free grammar with only productive rules per case (random LR(1), LR(1)-not-LALR templates, lookahead squares, gc seeds: merged-state-heavy on purpose); inputs: 1-3-edit mutants of sampled sentences, every kind of proper prefix (end-of-input errors), random strings, the empty input; each rejected input parsed with recovery off (exactly one error, no value, at the first non-viable lexeme per an Earley viable-prefix oracle; end-of-input errors are zero-length at the end of the last lexeme) and with CPCT+ on (first error at the same lexeme). Non-trivial = error index > 0 or at end of a non-empty input; distinct by (grammar, input)."
    }
    fn assumptions(&self) -> Vec<&'static str> {
        vec!["viable prefixes are decided by the harness's Earley recogniser on the abstract grammar", "preconditions (conflict-free table, all rules productive, no derivation cycle) are evaluated by the harness; other grammars are skipped and counted"]
    }
    fn floor(&self, tier: Tier) -> u64 {
        tier.sz(40000, 400000)
    }
    fn required_counters(&self, _t: Tier) -> Vec<&'static str> {
        vec!["rejected_inputs", "errors_at_first_lexeme", "errors_in_middle", "errors_at_eof", "errors_after_reductions_on_bad_lookahead", "recovery_on_checked"]
    }
    fn run_case(&self, seed: u64, idx: u64, tier: Tier) -> CaseOut {
        // thorough tier: every third case draws its random grammars from the medium-sized family
        set_size_boost(tier == Tier::Thorough && idx % 3 == 1);
        let mut out = CaseOut::new();
        let mut rng = Rng::derive(seed, "C04", idx, 0);
        let ag = match rng.weighted(&[50, 20, 15, 15]) {
            0 => gen_lr1(&mut rng),
            1 => {
                let mut g = gen_nonlalr(&mut rng);
                g.compact();
                g
            }
            2 => gen_lookahead_square(&mut rng),
            _ => gen_gc_seed(&mut rng),
        };
        if productive(&ag).iter().any(|x| !*x) || has_derivation_cycle(&ag) {
            out.count("skipped_precondition", 1);
            return out;
        }
        let b = match build_grm(&ag) {
            Ok(b) => b,
            Err(e) => {
                out.violate("grammar-build-failed", &["harness"], e, ag.to_json());
                return out;
            }
        };
        let (_sg, st) = match guarded(|| b.table()) {
            Ok(Ok(x)) => x,
            Ok(Err(_)) => {
                out.count("skipped_precondition", 1);
                return out;
            }
            Err(p) => {
                out.violate("panic", &["from_yacc"], format!("from_yacc panicked: {p}"), ag.to_json());
                return out;
            }
        };
        if st.conflicts().is_some() {
            out.count("skipped_precondition", 1);
            return out;
        }
        let ea = Earley::new(&ag);
        let nt = ag.tokens.len();
        let eof = u32::from(b.grm.eof_token_idx());
        let mut inputs: Vec<Vec<usize>> = vec![vec![]];
        for _ in 0..tier.sz(14, 35) {
            let d = rng.range(1, 8);
            if let Some(s) = sample_sentence(&ag, &mut rng, ag.start, d) {
                if s.len() <= 30 {
                    let ne = rng.range(1, 3);
                    inputs.push(mutate(&mut rng, &s, nt, ne));
                    if !s.is_empty() {
                        inputs.push(s[..rng.below(s.len())].to_vec());
                        // a sentence followed by garbage
                        let mut t = s.clone();
                        t.push(rng.below(nt));
                        inputs.push(t);
                    }
                }
            }
        }
        for _ in 0..tier.sz(6, 15) {
            inputs.push(random_tokens(&mut rng, nt, 10));
        }
        let gh = hash_str(&ag.normal_form());
        for inp in &inputs {
            let Some(want) = ea.first_nonviable(inp) else {
                out.count("sentences_skipped", 1);
                continue;
            };
            let toks: Vec<TIdx<u32>> = inp.iter().map(|t| b.tok[*t]).collect();
            let si = syn_input(&toks, &mut rng, true);
            out.evals += 1;
            out.count("rejected_inputs", 1);
            let detail = |x: String| json!({"grammar": b.src, "input": inp.iter().map(|t| ag.tokens[*t].name.clone()).collect::<Vec<_>>(), "text": si.text, "expected_error_lexeme": want, "obs": x});
            // recovery off
            match guarded(|| parse_tree(&b.grm, &st, &si, RecoveryKind::None, &|_| 1)) {
                Err(p) => {
                    out.violate("panic", &["parse"], format!("parse panicked: {p}"), detail(String::new()));
                    continue;
                }
                Ok((tree, errs)) => {
                    if tree.is_some() {
                        out.violate("value-for-rejected-input", &[], "recovery is off, the input is not a sentence, yet a value was returned".into(), detail(String::new()));
                    }
                    if errs.len() != 1 {
                        out.violate("error-count", &[], format!("recovery is off and the input is not a sentence: {} errors reported, expected exactly 1", errs.len()), detail(String::new()));
                    }
                    if let Some(e) = errs.first() {
                        match error_index(&si, e, eof) {
                            Err(m) => out.violate("error-lexeme-malformed", &[], m, detail(String::new())),
                            Ok(got) => {
                                if got != want {
                                    out.violate("error-position", &[], format!("error reported at lexeme {got}, but the first lexeme that cannot continue a sentence is {want}"), detail(String::new()));
                                }
                            }
                        }
                    }
                }
            }
            if want == 0 {
                out.count("errors_at_first_lexeme", 1);
            } else if want == inp.len() {
                out.count("errors_at_eof", 1);
            } else {
                out.count("errors_in_middle", 1);
            }
            if want > 0 || (want == inp.len() && !inp.is_empty()) {
                let key = format!("{:?}", inp);
                out.nontrivial(gh ^ hash_str(&key));
            }
            // did the automaton reduce on the offending lookahead before detecting the error?
            {
                let mut r = RefLR::new(&b.grm, &st);
                let mut ok = true;
                for (i, t) in toks.iter().enumerate().take(want) {
                    if r.feed(*t, Some(term_of(si.lexemes[i]))) != Step::Shifted {
                        ok = false;
                        break;
                    }
                }
                if ok {
                    let before = r.reductions;
                    let la = if want < toks.len() { toks[want] } else { b.grm.eof_token_idx() };
                    let _ = r.feed(la, if want < toks.len() { Some(term_of(si.lexemes[want])) } else { None });
                    if r.reductions > before {
                        out.count("errors_after_reductions_on_bad_lookahead", 1);
                    }
                }
            }
            // recovery on: first reported error at the same lexeme
            if rng.chance(1, 2) {
                lrpar::verif::set_recovery_step_budget(Some(3000));
                lrpar::verif::set_recovery_budget_ms(Some(60_000));
                let r = guarded(|| parse_tree(&b.grm, &st, &si, RecoveryKind::CPCTPlus, &|_| 1));
                lrpar::verif::set_recovery_step_budget(None);
                lrpar::verif::set_recovery_budget_ms(None);
                out.evals += 1;
                out.count("recovery_on_checked", 1);
                match r {
                    Err(p) => out.violate("panic", &["parse-recovery"], format!("parse with recovery panicked: {p}"), detail(String::new())),
                    Ok((_, errs)) => match errs.first() {
                        None => out.violate("no-error-with-recovery", &[], "with recovery on, a non-sentence produced no error".into(), detail(String::new())),
                        Some(e) => match error_index(&si, e, eof) {
                            Err(m) => out.violate("error-lexeme-malformed", &["recovery"], m, detail(String::new())),
                            Ok(got) => {
                                if got != want {
                                    out.violate("error-position-with-recovery", &[], format!("with recovery on, the first error is reported at lexeme {got}, expected {want}"), detail(String::new()));
                                }
                            }
                        },
                    },
                }
            }
        }
        if idx % 251 == 0 {
            out.sample = Some(json!({"grammar": b.src, "family": ag.family, "inputs": inputs.len(), "example": inputs.get(1).map(|i| i.iter().map(|t| ag.tokens[*t].name.clone()).collect::<Vec<_>>())}));
        }
        out
    }
}

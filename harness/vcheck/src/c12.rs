//! C12 — specification parsers are total: a result or located errors, never crash or hang.

use crate::ag::*;
use crate::frame::*;
use crate::lx::*;
use crate::rng::{hash_str, Rng};
use crate::yrender::*;
use cfgrammar::header::GrmtoolsSectionParser;
use cfgrammar::yacc::ast::ASTWithValidityInfo;
use cfgrammar::yacc::{YaccGrammar, YaccKind, YaccOriginalActionKind};
use cfgrammar::{Span, Spanned};
use lrlex::{DefaultLexerTypes, LRNonStreamingLexerDef, LexerDef};
use serde_json::json;
use std::str::FromStr;

pub struct C12;

fn repo_seeds() -> Vec<(String, String)> {
    // (.y/.l files and the grammar/lexer blocks of the cttests *.test files)
    let mut out = vec![];
    let mut stack = vec![std::path::PathBuf::from("/repo")];
    while let Some(d) = stack.pop() {
        let Ok(rd) = std::fs::read_dir(&d) else { continue };
        for e in rd.flatten() {
            let p = e.path();
            let name = e.file_name().to_string_lossy().to_string();
            if p.is_dir() {
                if name != "target" && name != ".git" {
                    stack.push(p);
                }
                continue;
            }
            let Ok(txt) = std::fs::read_to_string(&p) else { continue };
            if name.ends_with(".y") || name.ends_with(".l") {
                out.push((p.display().to_string(), txt));
            } else if name.ends_with(".test") {
                for key in ["grammar: |", "lexer: |"] {
                    if let Some(i) = txt.find(key) {
                        let mut block = String::new();
                        for l in txt[i + key.len()..].lines().skip(1) {
                            if l.starts_with("    ") {
                                block.push_str(&l[4..]);
                                block.push('\n');
                            } else if l.trim().is_empty() {
                                block.push('\n');
                            } else {
                                break;
                            }
                        }
                        if !block.trim().is_empty() {
                            out.push((format!("{}#{}", p.display(), key), block));
                        }
                    }
                }
            }
        }
    }
    out.sort();
    out.retain(|(_, t)| t.len() < 6000);
    out
}

const INJECT: [&str; 48] = ["²", "٣", "３", "½", "Ⅷ", "1²", "\\é", "\\♠x", "\u{85}", "\u{200e}", "\\\u{200e} ", "\\ ", "\\\u{85}\t", "*/", "%", "{", "}", "[", "]", "(", ")", "\"", "'", "\\", "/", "*", ":", ";", "|", "<", ">", ",", "!", "-", "%%", "/*", "//", "::", "é", "♠", "\0", "\r", "\n", " ", "99999999999999999999999", "%grmtools{", "%token", "0"];

fn span_ok(src: &str, sp: &Span) -> bool {
    sp.start() <= sp.end() && sp.end() <= src.len() && src.is_char_boundary(sp.start()) && src.is_char_boundary(sp.end())
}

struct Stats {
    ok: u64,
    err: u64,
}

fn check_yacc(m: &str, kinds: &[YaccKind], out: &mut CaseOut, st: &mut Stats, origin: &str) {
    let detail = |api: &str| json!({"input": m, "api": api, "seed_spec": origin});
    for yk in kinds {
        trace(|| format!("ASTWithValidityInfo::new({yk:?}) on {m:?}"));
        out.evals += 1;
        match guarded(|| {
            let a = ASTWithValidityInfo::new(*yk, m);
            let errs: Vec<(String, Vec<Span>)> = a.errors().iter().map(|e| (format!("{e}"), e.spans().to_vec())).collect();
            let warns: Vec<(String, Vec<Span>)> = a.ast().warnings().iter().map(|e| (format!("{e}"), e.spans().to_vec())).collect();
            (a.is_valid(), errs, warns)
        }) {
            Err(p) => out.violate("panic", &["yacc-ast"], format!("ASTWithValidityInfo::new({yk:?}) panicked: {p}"), detail("ASTWithValidityInfo::new")),
            Ok((valid, errs, warns)) => {
                if valid {
                    st.ok += 1;
                } else {
                    st.err += 1;
                }
                if !valid && errs.is_empty() {
                    out.violate("no-value-no-error", &[], "AST is invalid but carries no error".into(), detail("ASTWithValidityInfo::new"));
                }
                for (msg, spans) in errs.iter().chain(warns.iter()) {
                    if spans.is_empty() {
                        out.violate("error-without-span", &[], format!("'{msg}' carries no span"), detail("ASTWithValidityInfo::new"));
                    }
                    for sp in spans {
                        if !span_ok(m, sp) {
                            out.violate("bad-span", &[], format!("'{msg}' has span {}..{} in a text of {} bytes (or off a char boundary)", sp.start(), sp.end(), m.len()), detail("ASTWithValidityInfo::new"));
                        }
                    }
                }
            }
        }
        trace(|| format!("YaccGrammar::new({yk:?}) on {m:?}"));
        out.evals += 1;
        match guarded(|| YaccGrammar::<u32>::new(*yk, m).map(|_| ()).map_err(|e| e.iter().map(|x| (format!("{x}"), x.spans().to_vec())).collect::<Vec<_>>())) {
            Err(p) => out.violate("panic", &["yacc-grammar"], format!("YaccGrammar::new({yk:?}) panicked: {p}"), detail("YaccGrammar::new")),
            Ok(Ok(())) => {}
            Ok(Err(errs)) => {
                if errs.is_empty() {
                    out.violate("no-value-no-error", &[], "YaccGrammar::new returned Err with an empty error list".into(), detail("YaccGrammar::new"));
                }
                for (msg, spans) in errs {
                    for sp in spans {
                        if !span_ok(m, &sp) {
                            out.violate("bad-span", &[], format!("'{msg}' has span {}..{} in a text of {} bytes", sp.start(), sp.end(), m.len()), detail("YaccGrammar::new"));
                        }
                    }
                }
            }
        }
    }
    trace(|| format!("YaccGrammar::from_str on {m:?}"));
    out.evals += 1;
    match guarded(|| YaccGrammar::<u32>::from_str(m).map(|_| ()).map_err(|e| e.iter().map(|x| (format!("{x}"), x.spans().to_vec())).collect::<Vec<_>>())) {
        Err(p) => out.violate("panic", &["yacc-from_str"], format!("YaccGrammar::from_str panicked: {p}"), detail("YaccGrammar::from_str")),
        Ok(Ok(())) => {}
        Ok(Err(errs)) => {
            if errs.is_empty() {
                out.violate("no-value-no-error", &[], "YaccGrammar::from_str returned Err(vec![])".into(), detail("YaccGrammar::from_str"));
            }
            for (msg, spans) in errs {
                for sp in spans {
                    if !span_ok(m, &sp) {
                        out.violate("bad-span", &[], format!("'{msg}' has span {}..{} in a text of {} bytes", sp.start(), sp.end(), m.len()), detail("YaccGrammar::from_str"));
                    }
                }
            }
        }
    }
}

fn check_lex(m: &str, out: &mut CaseOut, st: &mut Stats, origin: &str) {
    let detail = |api: &str| json!({"input": m, "api": api, "seed_spec": origin});
    trace(|| format!("LRNonStreamingLexerDef::from_str on {m:?}"));
    out.evals += 1;
    match guarded(|| LRNonStreamingLexerDef::<DefaultLexerTypes<u32>>::from_str(m).map(|_| ()).map_err(|e| e.iter().map(|x| (format!("{x}"), x.spans().to_vec())).collect::<Vec<_>>())) {
        Err(p) => out.violate("panic", &["lex"], format!("LRNonStreamingLexerDef::from_str panicked: {p}"), detail("LRNonStreamingLexerDef::from_str")),
        Ok(Ok(())) => st.ok += 1,
        Ok(Err(errs)) => {
            st.err += 1;
            if errs.is_empty() {
                out.violate("no-value-no-error", &[], "from_str returned Err(vec![])".into(), detail("LRNonStreamingLexerDef::from_str"));
            }
            for (msg, spans) in errs {
                if spans.is_empty() {
                    out.violate("error-without-span", &[], format!("'{msg}' carries no span"), detail("LRNonStreamingLexerDef::from_str"));
                }
                for sp in spans {
                    if !span_ok(m, &sp) {
                        out.violate("bad-span", &[], format!("'{msg}' has span {}..{} in a text of {} bytes (or off a char boundary)", sp.start(), sp.end(), m.len()), detail("LRNonStreamingLexerDef::from_str"));
                    }
                }
            }
        }
    }
}

fn check_header(m: &str, out: &mut CaseOut, st: &mut Stats, origin: &str) {
    let detail = |api: &str| json!({"input": m, "api": api, "seed_spec": origin});
    for required in [false, true] {
        trace(|| format!("GrmtoolsSectionParser(required={required}) on {m:?}"));
        out.evals += 1;
        match guarded(|| GrmtoolsSectionParser::new(m, required).parse().map(|(_, pos)| pos).map_err(|e| e.iter().map(|x| (format!("{x}"), x.spans().to_vec())).collect::<Vec<_>>())) {
            Err(p) => out.violate("panic", &["header"], format!("GrmtoolsSectionParser::parse panicked: {p}"), detail("GrmtoolsSectionParser::parse")),
            Ok(Ok(pos)) => {
                st.ok += 1;
                if pos > m.len() || !m.is_char_boundary(pos) {
                    out.violate("bad-span", &["header-pos"], format!("%grmtools section reported to end at {pos} in a text of {} bytes", m.len()), detail("GrmtoolsSectionParser::parse"));
                }
            }
            Ok(Err(errs)) => {
                st.err += 1;
                if errs.is_empty() {
                    out.violate("no-value-no-error", &[], "parse returned Err(vec![])".into(), detail("GrmtoolsSectionParser::parse"));
                }
                for (msg, spans) in errs {
                    if spans.is_empty() {
                        out.violate("error-without-span", &[], format!("'{msg}' carries no span"), detail("GrmtoolsSectionParser::parse"));
                    }
                    for sp in spans {
                        if !span_ok(m, &sp) {
                            out.violate("bad-span", &[], format!("'{msg}' has span {}..{} in a text of {} bytes", sp.start(), sp.end(), m.len()), detail("GrmtoolsSectionParser::parse"));
                        }
                    }
                }
            }
        }
    }
}

fn mutate_text(rng: &mut Rng, s: &str) -> String {
    let bs: Vec<usize> = s.char_indices().map(|(i, _)| i).chain(std::iter::once(s.len())).collect();
    let at = |rng: &mut Rng| bs[rng.below(bs.len())];
    match rng.below(7) {
        0 => {
            // delete a range
            let (a, b) = (at(rng), at(rng));
            let (a, b) = (a.min(b), a.max(b).min(a.min(b) + 12));
            let b = *bs.iter().find(|x| **x >= b).unwrap_or(&s.len());
            format!("{}{}", &s[..a], &s[b..])
        }
        1 => {
            // duplicate a range
            let (a, b) = (at(rng), at(rng));
            let (a, b) = (a.min(b), a.max(b));
            format!("{}{}{}", &s[..b], &s[a..b], &s[b..])
        }
        2 => {
            // transpose two adjacent ranges
            let mut v = [at(rng), at(rng), at(rng)];
            v.sort();
            format!("{}{}{}{}", &s[..v[0]], &s[v[1]..v[2]], &s[v[0]..v[1]], &s[v[2]..])
        }
        3 | 4 => {
            let a = at(rng);
            format!("{}{}{}", &s[..a], *rng.pick(&INJECT[..]), &s[a..])
        }
        5 => {
            // digit run
            let a = at(rng);
            let n = rng.range(1, 40);
            format!("{}{}{}", &s[..a], "7".repeat(n), &s[a..])
        }
        _ => {
            // header-focused
            let h = *rng.pick(&["%grmtools{a: [ }", "%grmtools{a: [1, [2, 3], }", "%grmtools{a: 99999999999999999999999}", "%grmtools{a::b}", "%grmtools{x: \"unterminated}", "%grmtools{!}", "%grmtools{a: b(c::, )}", "%grmtools {", "%grmtools{a: [\"x\" \"y\"]}", "%grmtools{yacckind: Original(", "%grmtools{,}"]);
            format!("{h}\n{s}")
        }
    }
}

impl Check for C12 {
    fn id(&self) -> &'static str {
        "C12"
    }
    fn ncases(&self, tier: Tier) -> u64 {
        tier.sz(1920, 16000)
    }
    fn rule(&self) -> &'static str {
        "one seed specification per case (generated .y in all syntaxes with headers/actions/comments, generated .l, and every .y/.l file and cttests grammar/lexer block found under /repo); mutants: truncation at EVERY character boundary (exhaustive per seed), random range deletion/duplication/transposition, injection of brackets/quotes/percent/comment openers/multi-byte/NUL/CR/huge numbers at random offsets (quick) or at every offset (thorough, rotating injected string), digit runs, header-focused prefixes; each mutant goes to ASTWithValidityInfo::new (3+ kinds) incl. warnings, YaccGrammar::new/from_str, LRNonStreamingLexerDef::from_str and GrmtoolsSectionParser::parse(required true/false): no panic, returns (watchdog), value or non-empty errors, every error/warning span within the text on char boundaries. Non-trivial = mutant differs from its seed and hits an error path; distinct by mutant text."
    }
    fn assumptions(&self) -> Vec<&'static str> {
        vec!["'terminates promptly' is judged by the per-case watchdog (40 s for some 10^4 parser calls) with isolated confirmation and a trace of the last input"]
    }
    fn floor(&self, tier: Tier) -> u64 {
        tier.sz(100000, 800000)
    }
    fn required_counters(&self, _t: Tier) -> Vec<&'static str> {
        vec!["truncations", "random_mutants", "yacc_inputs", "lex_inputs", "header_inputs", "results_ok", "results_err", "repo_seed_cases", "generated_seed_cases"]
    }
    fn hang_is_violation(&self) -> bool {
        true
    }
    fn case_cap_s(&self, _t: Tier) -> u64 {
        60
    }
    fn run_case(&self, seed: u64, idx: u64, tier: Tier) -> CaseOut {
        let mut out = CaseOut::new();
        let mut rng = Rng::derive(seed, "C12", idx, 0);
        let repo = repo_seeds();
        // seed spec
        let (origin, spec, is_lex): (String, String, bool) = if idx % 3 == 2 && !repo.is_empty() {
            out.count("repo_seed_cases", 1);
            let (n, t) = &repo[(idx / 3) as usize % repo.len()];
            (n.clone(), t.clone(), n.ends_with(".l") || n.contains("lexer"))
        } else if idx % 3 == 1 {
            out.count("generated_seed_cases", 1);
            let al = gen_alex(&mut rng);
            let ro = RenderOpts { header: rng.chance(1, 2), crlf: rng.chance(1, 4), comments: true, lexy_escapes: true };
            let rd = render_alex(&al, &mut rng, &ro);
            ("generated .l".into(), rd.text, true)
        } else {
            out.count("generated_seed_cases", 1);
            let mut ag = gen_mixed(&mut rng, true);
            decorate(&mut ag, &mut rng);
            let mut o = YOpts::random(&mut rng);
            o.header = rng.chance(2, 3);
            let rd = render_fancy(&ag, &mut rng, &o);
            (format!("generated .y ({})", ag.kind.name()), rd.text, false)
        };
        let kinds_all = [
            YaccKind::Original(YaccOriginalActionKind::GenericParseTree),
            YaccKind::Grmtools,
            YaccKind::Eco,
            YaccKind::Original(YaccOriginalActionKind::UserAction),
            YaccKind::Original(YaccOriginalActionKind::NoAction),
        ];
        let mut st = Stats { ok: 0, err: 0 };
        let mut run = |m: &str, out: &mut CaseOut, rng: &mut Rng, full: bool| {
            let before_err = st.err;
            if !is_lex || full {
                let k0 = rng.below(5);
                let kinds = [kinds_all[k0], kinds_all[(k0 + 1) % 5], kinds_all[(k0 + 2) % 5]];
                check_yacc(m, if full { &kinds_all[..] } else { &kinds[..] }, out, &mut st, &origin);
                out.count("yacc_inputs", 1);
            }
            if is_lex || full {
                check_lex(m, out, &mut st, &origin);
                out.count("lex_inputs", 1);
            }
            check_header(m, out, &mut st, &origin);
            out.count("header_inputs", 1);
            if st.err > before_err && m != spec {
                out.nontrivial(hash_str(m));
            }
        };
        // the seed itself, through everything
        run(&spec, &mut out, &mut rng, true);
        // exhaustive truncation
        let bs: Vec<usize> = spec.char_indices().map(|(i, _)| i).chain(std::iter::once(spec.len())).collect();
        for b in &bs {
            run(&spec[..*b], &mut out, &mut rng, false);
            out.count("truncations", 1);
        }
        // random mutants (1-3 stacked mutations)
        for _ in 0..tier.sz(200, 600) {
            let mut m = spec.clone();
            for _ in 0..rng.range(1, 3) {
                m = mutate_text(&mut rng, &m);
            }
            if m.len() > 8000 {
                continue;
            }
            let full = rng.chance(1, 10);
            run(&m, &mut out, &mut rng, full);
            out.count("random_mutants", 1);
        }
        // thorough: an injection at every offset (the injected string rotates)
        if tier == Tier::Thorough {
            for (k, b) in bs.iter().enumerate() {
                let inj = INJECT[(k + idx as usize) % INJECT.len()];
                let m = format!("{}{}{}", &spec[..*b], inj, &spec[*b..]);
                run(&m, &mut out, &mut rng, false);
                out.count("injections_at_every_offset", 1);
            }
        }
        out.count("results_ok", st.ok);
        out.count("results_err", st.err);
        if idx % 13 == 0 {
            out.sample = Some(json!({"seed_spec_origin": origin, "seed_spec": spec.chars().take(400).collect::<String>(), "truncations": bs.len()}));
        }
        out
    }
}

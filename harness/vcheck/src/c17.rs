//! C17 — grammar analyses (FIRST, FOLLOW, nullable, reachability, costs) are exact.

use crate::ag::*;
use crate::frame::*;
use crate::refs::*;
use crate::rng::{hash_str, Rng};
use cfgrammar::{RIdx, TIdx};
use serde_json::json;
use std::collections::BTreeSet;
#[allow(unused_imports)]
use cfgrammar::PIdx;

pub struct C17;

pub fn gen_c17(rng: &mut Rng) -> AG {
    // analysis-only property: unproductive, unreachable and cyclic grammars are all in scope
    let mut g = match rng.weighted(&[30, 25, 20, 10, 15]) {
        0 => gen_random(rng, &GenOpts { reduced: false, empty_pct: 25, ..GenOpts::default() }, "random-unreduced"),
        1 => gen_nullable(rng),
        2 => gen_recursive(rng),
        3 => gen_unit_cycles(rng),
        _ => gen_random(rng, &GenOpts::default(), "random-small"),
    };
    g.compact();
    g
}

/// grammars with unit cycles and token-free cycles
fn gen_unit_cycles(rng: &mut Rng) -> AG {
    let mut g = gen_random(rng, &GenOpts { max_rules: 5, ..GenOpts::default() }, "unit-cycles");
    let n = g.rules.len();
    let a = rng.below(n);
    let b = rng.below(n);
    g.add_prod(a, vec![ASym::R(b)]);
    g.add_prod(b, vec![ASym::R(a)]);
    if rng.chance(1, 2) {
        let c = rng.below(n);
        g.add_prod(c, vec![ASym::R(c)]);
    }
    g
}

fn restrict_to(g: &AG, keep: &[bool]) -> AG {
    // drop productions that mention a rule not in `keep`, and all productions of rules not kept
    let mut h = g.clone();
    for (ri, r) in h.rules.iter_mut().enumerate() {
        if !keep[ri] {
            r.prods.clear();
        } else {
            r.prods.retain(|p| p.syms.iter().all(|s| match s {
                ASym::T(_) => true,
                ASym::R(x) => keep[*x],
            }));
        }
    }
    h
}

const PROBE_SECS: u64 = 3;

pub enum ProbeResult {
    Returned,
    Hung,
    Failed(String),
    /// the probe process could not be started or waited for: says nothing about the code under test
    NotRun(String),
}

/// Run `min_sentence_cost` for every rule of case `idx`'s grammar (unit costs) in a subprocess.
fn probe_min_cost(seed: u64, idx: u64) -> ProbeResult {
    let exe = std::env::current_exe().expect("current_exe");
    let mut child = match std::process::Command::new(exe)
        .args(["probe17", &seed.to_string(), &idx.to_string()])
        .stdin(std::process::Stdio::null())
        .stdout(std::process::Stdio::null())
        .stderr(std::process::Stdio::null())
        .spawn()
    {
        Ok(c) => c,
        Err(e) => return ProbeResult::NotRun(format!("spawn: {e}")),
    };
    let t0 = std::time::Instant::now();
    loop {
        match child.try_wait() {
            Ok(Some(st)) => {
                use std::os::unix::process::ExitStatusExt;
                return if st.success() {
                    ProbeResult::Returned
                } else if st.signal().is_some() {
                    // unbounded recursion ends in a stack overflow abort: same class as not returning
                    ProbeResult::Hung
                } else {
                    ProbeResult::Failed(format!("exit status {st}"))
                };
            }
            Ok(None) => {
                if t0.elapsed().as_secs() >= PROBE_SECS {
                    child.kill().ok();
                    child.wait().ok();
                    return ProbeResult::Hung;
                }
                std::thread::sleep(std::time::Duration::from_millis(20));
            }
            Err(e) => return ProbeResult::NotRun(format!("wait: {e}")),
        }
    }
}

pub fn probe_main(seed: u64, idx: u64) {
    let mut rng = Rng::derive(seed, "C17", idx, 0);
    let ag = gen_c17(&mut rng);
    let b = build_grm(&ag).expect("grammar");
    let sg = b.grm.sentence_generator(|_| 1);
    let prodv = productive(&ag);
    for r in 0..ag.rules.len() {
        if prodv[r] {
            let _ = sg.min_sentence(b.rule[r]);
            let _ = sg.min_sentences(b.rule[r]);
        }
    }
}

impl Check for C17 {
    fn id(&self) -> &'static str {
        "C17"
    }
    fn ncases(&self, tier: Tier) -> u64 {
        tier.sz(4000, 60000)
    }
    fn rule(&self) -> &'static str {
        "one generated grammar per case (random incl. unproductive/unreachable rules, nullable-heavy with top-down nullable chains, recursive, unit cycles) x 3 token-cost functions (all 1; random 1-3; a few 200-255); FIRST/epsilon/FOLLOW/has_path compared set-for-set with relation-closure reference analyses; min/max sentence cost compared with reference (Knuth fixed point / longest path); min_sentence(s) checked derivable (Earley), minimal, duplicate-free. Non-trivial = grammar has a nullable non-last symbol in some production or a derivation cycle; distinct by normalised grammar."
    }
    fn assumptions(&self) -> Vec<&'static str> {
        vec![
            "FIRST/FOLLOW: textbook sentential-form definition; on grammars with unproductive rules the terminal-strings reading is also accepted; on grammars with unreachable rules both 'over all productions' and 'over productions of reachable rules' are accepted for FOLLOW",
            "cost comparisons are only made for productive rules and where the true value fits well inside u16",
        ]
    }
    fn floor(&self, tier: Tier) -> u64 {
        tier.sz(500, 8000)
    }
    fn required_counters(&self, _t: Tier) -> Vec<&'static str> {
        vec!["first_sets_compared", "follow_sets_compared", "path_queries", "min_costs_compared", "max_costs_compared", "min_sentences_checked", "grammars_with_unproductive", "grammars_with_cycle"]
    }
    fn case_cap_s(&self, _t: Tier) -> u64 {
        20
    }
    fn hang_is_violation(&self) -> bool {
        true
    }
    fn run_case(&self, seed: u64, idx: u64, _tier: Tier) -> CaseOut {
        let mut out = CaseOut::new();
        let mut rng = Rng::derive(seed, "C17", idx, 0);
        let ag = gen_c17(&mut rng);
        let b = match build_grm(&ag) {
            Ok(b) => b,
            Err(e) => {
                out.violate("grammar-build-failed", &["harness"], e, ag.to_json());
                return out;
            }
        };
        let grm = &b.grm;
        let detail = |extra: serde_json::Value| json!({"grammar": b.src, "obs": extra});
        let nr = ag.rules.len();
        let prodv = productive(&ag);
        let reach = reachable(&ag);
        let has_unprod = prodv.iter().any(|x| !*x);
        let has_unreach = reach.iter().any(|x| !*x);
        let cyclic = has_derivation_cycle(&ag);
        if has_unprod {
            out.count("grammars_with_unproductive", 1);
        }
        if has_unreach {
            out.count("grammars_with_unreachable", 1);
        }
        if cyclic {
            out.count("grammars_with_cycle", 1);
        }
        let mut gtags: Vec<&str> = vec![];
        if has_unprod {
            gtags.push("grammar_has_unproductive_rule");
        }
        if cyclic {
            gtags.push("grammar_has_derivation_cycle");
        }
        // ---- FIRST / nullable
        let nul = nullable(&ag);
        let fs = first_sets(&ag);
        let ag_prod = restrict_to(&ag, &prodv);
        let fs_prod = first_sets(&ag_prod);
        let firsts = match guarded(|| grm.firsts()) {
            Ok(f) => f,
            Err(p) => {
                out.violate("panic", &["firsts"], format!("firsts() panicked: {p}"), detail(json!(null)));
                return out;
            }
        };
        for r in 0..nr {
            out.evals += 1;
            out.count("first_sets_compared", 1);
            let got: BTreeSet<usize> = (0..ag.tokens.len()).filter(|t| firsts.is_set(b.rule[r], b.tok[*t])).collect();
            let extra_eof = firsts.is_set(b.rule[r], grm.eof_token_idx());
            let ok = (got == fs[r] || (has_unprod && got == fs_prod[r])) && !extra_eof;
            if !ok {
                out.violate("first-mismatch", &gtags, format!("FIRST({}) = {:?}, expected {:?}", ag.rules[r].name, got.iter().map(|t| &ag.tokens[*t].name).collect::<Vec<_>>(), fs[r].iter().map(|t| &ag.tokens[*t].name).collect::<Vec<_>>()), detail(json!({"rule": ag.rules[r].name})));
            }
            if firsts.is_epsilon_set(b.rule[r]) != nul[r] {
                out.violate("epsilon-mismatch", &gtags, format!("epsilon flag of {} is {}, but the rule {} derive the empty string", ag.rules[r].name, !nul[r], if nul[r] { "does" } else { "does not" }), detail(json!({"rule": ag.rules[r].name})));
            }
        }
        // ---- FOLLOW
        let fol = follow_sets(&ag);
        let fol_reach = follow_sets(&restrict_to(&ag, &reach));
        let fol_prod = follow_sets(&ag_prod);
        match guarded(|| grm.follows()) {
            Err(p) => out.violate("panic", &["follows"], format!("follows() panicked: {p}"), detail(json!(null))),
            Ok(follows) => {
                for r in 0..nr {
                    out.evals += 1;
                    out.count("follow_sets_compared", 1);
                    let mut got: BTreeSet<usize> = (0..ag.tokens.len()).filter(|t| follows.is_set(b.rule[r], b.tok[*t])).collect();
                    if follows.is_set(b.rule[r], grm.eof_token_idx()) {
                        got.insert(EOF);
                    }
                    let ok = got == fol[r] || (has_unreach && got == fol_reach[r]) || (has_unprod && got == fol_prod[r]);
                    if !ok {
                        // predicate for a nullable symbol in the middle of a production after this rule
                        let mut tags = gtags.clone();
                        let mid_nullable = ag.rules.iter().any(|rr| rr.prods.iter().any(|p| {
                            p.syms.windows(3).any(|w| w[0] == ASym::R(r) && matches!(w[1], ASym::R(x) if nul[x]))
                        }));
                        if mid_nullable {
                            tags.push("rule_followed_by_nullable_then_more");
                        }
                        let pp = |s: &BTreeSet<usize>| s.iter().map(|t| if *t == EOF { "$".to_string() } else { ag.tokens[*t].name.clone() }).collect::<Vec<_>>();
                        out.violate("follow-mismatch", &tags, format!("FOLLOW({}) = {:?}, expected {:?}", ag.rules[r].name, pp(&got), pp(&fol[r])), detail(json!({"rule": ag.rules[r].name})));
                    }
                }
            }
        }
        // ---- has_path
        for a in 0..nr {
            for c in 0..nr {
                out.evals += 1;
                out.count("path_queries", 1);
                match guarded(|| grm.has_path(b.rule[a], b.rule[c])) {
                    Err(p) => out.violate("panic", &["has_path"], format!("has_path panicked: {p}"), detail(json!(null))),
                    Ok(got) => {
                        let want = has_path(&ag, a, c);
                        if got != want {
                            out.violate("path-mismatch", &[], format!("has_path({}, {}) = {got}, expected {want}", ag.rules[a].name, ag.rules[c].name), detail(json!(null)));
                        }
                    }
                }
            }
        }
        // ---- costs
        let ea = Earley::new(&ag);
        for cf in 0..3 {
            let costs: Vec<u8> = (0..ag.tokens.len())
                .map(|_| match cf {
                    0 => 1u8,
                    1 => rng.range(1, 3) as u8,
                    _ => {
                        if rng.chance(1, 3) {
                            rng.range(200, 255) as u8
                        } else {
                            rng.range(1, 4) as u8
                        }
                    }
                })
                .collect();
            let cost_ag = |t: usize| costs[t] as u64;
            let cost_tidx = |t: TIdx<u32>| -> u8 { b.tidx_to_ag[usize::from(t)].map(|a| costs[a]).unwrap_or(1) };
            let minc = min_costs(&ag, &cost_ag);
            let maxc = max_costs(&ag, &cost_ag);
            let sg = grm.sentence_generator(cost_tidx);
            let cdetail = |x: serde_json::Value| json!({"grammar": b.src, "token_costs": ag.tokens.iter().zip(costs.iter()).map(|(t, c)| json!([t.name, c])).collect::<Vec<_>>(), "obs": x});
            let mut min_ok = true;
            for r in 0..nr {
                if !prodv[r] {
                    continue;
                }
                let want = minc[r].unwrap();
                if want > 60000 {
                    continue;
                }
                out.evals += 1;
                out.count("min_costs_compared", 1);
                match guarded(|| sg.min_sentence_cost(b.rule[r])) {
                    Err(p) => {
                        out.violate("min-cost-panic", &gtags, format!("min_sentence_cost({}) panicked: {p}", ag.rules[r].name), cdetail(json!(null)));
                        min_ok = false;
                        break;
                    }
                    Ok(got) => {
                        if got as u64 != want {
                            out.violate("min-cost-mismatch", &gtags, format!("min_sentence_cost({}) = {got}, true minimum = {want}", ag.rules[r].name), cdetail(json!(null)));
                            min_ok = false;
                        }
                    }
                }
            }
            for r in 0..nr {
                if !prodv[r] {
                    continue;
                }
                let want = match maxc[r] {
                    MaxCost::Finite(x) if x > 60000 => continue,
                    MaxCost::Finite(x) => Some(x),
                    MaxCost::Unbounded => None,
                    MaxCost::Unproductive => continue,
                };
                out.evals += 1;
                out.count("max_costs_compared", 1);
                match guarded(|| sg.max_sentence_cost(b.rule[r])) {
                    Err(p) => {
                        out.violate("max-cost-panic", &gtags, format!("max_sentence_cost({}) panicked: {p}", ag.rules[r].name), cdetail(json!(null)));
                        break;
                    }
                    Ok(got) => {
                        if got.map(|x| x as u64) != want {
                            let mut tags = gtags.clone();
                            // predicates of the known over-approximations
                            if got.is_none() && want.is_some() {
                                let recursive_without_growth = (0..nr).any(|x| has_path(&ag, x, x) && has_path(&ag, r, x) || (x == r && has_path(&ag, r, r)));
                                if recursive_without_growth {
                                    tags.push("finite_max_but_rule_reaches_a_recursive_rule");
                                }
                            }
                            let under = match (got, want) {
                                (Some(g), Some(w)) => (g as u64) < w,
                                (Some(_), None) => true,
                                _ => false,
                            };
                            if under {
                                // mechanism of the known defect: a rule is finalised while one of its
                                // productions still refers to a rule whose cost is not final yet
                                // (a rule declared at or after it)
                                let fwd = (0..nr).any(|x| (x == r || has_path(&ag, r, x)) && ag.rules[x].prods.iter().any(|p| p.syms.iter().any(|s| matches!(s, ASym::R(y) if *y >= x))));
                                if fwd {
                                    tags.push("max_underestimate_with_forward_reference");
                                }
                            }
                            out.violate("max-cost-mismatch", &tags, format!("max_sentence_cost({}) = {got:?}, true maximum = {want:?}", ag.rules[r].name), cdetail(json!(null)));
                        }
                    }
                }
            }
            // min_sentence(s) does not return on grammars with a derivation cycle (a zero-cost cycle
            // can be chosen for ever), so for those it is only called in a subprocess probe with a
            // timeout (sampled: one cyclic grammar in 12; the selector is spread so that every worker
            // shard gets its share of the slow probes)
            if cyclic {
                min_ok = false;
                if cf == 0 && (idx / 16 + idx) % 12 == 0 {
                    out.evals += 1;
                    out.count("min_sentence_probes_on_cyclic_grammars", 1);
                    match probe_min_cost(seed, idx) {
                        ProbeResult::Returned => {
                            out.count("min_sentence_probes_returned", 1);
                        }
                        ProbeResult::Hung => out.violate("min-sentence-no-return", &gtags, format!("min_sentence/min_sentences did not return (no result within {PROBE_SECS}s, or unbounded recursion until the stack overflowed; subprocess probe) on a grammar with a derivation cycle"), cdetail(json!(null))),
                        ProbeResult::Failed(e) => out.violate("min-sentence-panic", &gtags, format!("min_sentence probe failed: {e}"), cdetail(json!(null))),
                        ProbeResult::NotRun(e) => out.inconclusive(&format!("min_sentence probe could not be run: {e}")),
                    }
                }
            }
            if min_ok {
                for r in 0..nr {
                    if !prodv[r] || minc[r].unwrap() > 60000 {
                        continue;
                    }
                    let want = minc[r].unwrap();
                    out.evals += 1;
                    out.count("min_sentences_checked", 1);
                    match guarded(|| (sg.min_sentence(b.rule[r]), sg.min_sentences(b.rule[r]))) {
                        Err(p) => {
                            out.violate("min-sentence-panic", &gtags, format!("min_sentence(s)({}) panicked: {p}", ag.rules[r].name), cdetail(json!(null)));
                            break;
                        }
                        Ok((one, all)) => {
                            let conv = |s: &Vec<TIdx<u32>>| -> Option<Vec<usize>> { s.iter().map(|t| b.tidx_to_ag[usize::from(*t)]).collect() };
                            let mut sents = vec![one];
                            sents.extend(all.iter().cloned());
                            for s in &sents {
                                match conv(s) {
                                    None => out.violate("min-sentence-bad-token", &gtags, "min sentence contains a non-user token".into(), cdetail(json!(null))),
                                    Some(v) => {
                                        let c: u64 = v.iter().map(|t| costs[*t] as u64).sum();
                                        if c != want {
                                            out.violate("min-sentence-not-minimal", &gtags, format!("a generated minimal sentence of {} costs {c}, minimum is {want}", ag.rules[r].name), cdetail(json!({"sentence": v.iter().map(|t| ag.tokens[*t].name.clone()).collect::<Vec<_>>()})));
                                        }
                                        if !ea.member_from(r, &v) {
                                            out.violate("min-sentence-not-derivable", &gtags, format!("a generated minimal sentence of {} is not derivable from it", ag.rules[r].name), cdetail(json!({"sentence": v.iter().map(|t| ag.tokens[*t].name.clone()).collect::<Vec<_>>()})));
                                        }
                                    }
                                }
                            }
                        }
                    }
                }
            }
        }
        let nonlast_nullable = ag.rules.iter().any(|r| r.prods.iter().any(|p| p.syms.len() >= 2 && p.syms[..p.syms.len() - 1].iter().any(|s| matches!(s, ASym::R(x) if nul[*x]))));
        if nonlast_nullable || cyclic {
            out.nontrivial(hash_str(&ag.normal_form()));
        }
        if idx % 331 == 0 {
            out.sample = Some(json!({"grammar": b.src, "family": ag.family, "unproductive": has_unprod, "unreachable": has_unreach, "cyclic": cyclic}));
        }
        let _ = RIdx(0u32);
        out
    }
}

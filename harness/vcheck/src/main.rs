#![allow(dead_code)]
mod frame;
mod rng;
mod ag;
mod refs;
mod lrx;
mod c01;
mod c02;
mod c03;
mod c04;
mod rec;
mod c05;
mod c06;
mod c07;
mod c08;
mod lx;
mod c09;
mod yrender;
mod c10;
mod c11;
mod c12;
mod c13;
mod dump;
mod c14;
mod ctgen;
mod c15;
mod c18;
mod c20;
mod c16;
mod c17;
mod c19;

use frame::{Check, Tier};

fn registry() -> Vec<Box<dyn Check>> {
    vec![Box::new(c01::C01), Box::new(c02::C02), Box::new(c03::C03), Box::new(c04::C04), Box::new(c05::C05), Box::new(c06::C06), Box::new(c07::C07), Box::new(c08::C08), Box::new(c09::C09), Box::new(c10::C10), Box::new(c11::C11), Box::new(c12::C12), Box::new(c13::C13), Box::new(c14::C14), Box::new(c15::C15), Box::new(c18::C18), Box::new(c20::C20), Box::new(c16::C16), Box::new(c17::C17), Box::new(c19::C19)]
}

fn find(id: &str) -> Box<dyn Check> {
    registry().into_iter().find(|c| c.id() == id).unwrap_or_else(|| {
        eprintln!("unknown check {id}");
        std::process::exit(2)
    })
}

fn seed_from_env() -> u64 {
    std::env::var("VERIF_SEED").ok().and_then(|s| s.trim().parse::<u64>().ok()).unwrap_or(1)
}

fn main() {
    let args: Vec<String> = std::env::args().collect();
    if args.len() < 3 {
        eprintln!("usage: vcheck run <Cxx> <quick|thorough> | vcheck replay <Cxx> <file> | vcheck worker ...");
        std::process::exit(2);
    }
    match args[1].as_str() {
        "worker" => {
            let c = find(&args[2]);
            let tier = Tier::parse(&args[3]).unwrap();
            let seed: u64 = args[4].parse().unwrap();
            let start: u64 = args[5].parse().unwrap();
            let step: u64 = args[6].parse().unwrap();
            let only = args[7] == "only";
            frame::worker_main(c.as_ref(), tier, seed, start, step, only);
        }
        "run" => {
            let c = find(&args[2]);
            let tier = args.get(3).and_then(|s| Tier::parse(s)).or_else(|| std::env::var("VERIF_TIER").ok().and_then(|s| Tier::parse(&s))).unwrap_or(Tier::Quick);
            std::process::exit(frame::driver_main(c.as_ref(), tier, seed_from_env(), None));
        }
        "replay" => {
            let c = find(&args[2]);
            let body = std::fs::read_to_string(&args[3]).expect("read replay file");
            let v: serde_json::Value = serde_json::from_str(&body).expect("parse replay file");
            let tier = Tier::parse(v["tier"].as_str().unwrap_or("quick")).unwrap();
            let seed = v["seed"].as_u64().unwrap_or(1);
            let idx = v["case"].as_u64().unwrap_or(0);
            std::process::exit(frame::driver_main(c.as_ref(), tier, seed, Some(idx)));
        }
        "gcsearch" => {
            let mut rng = rng::Rng::new(args[2].parse().unwrap());
            let mut found = 0;
            let min_d: u64 = args.get(3).and_then(|s| s.parse().ok()).unwrap_or(1);
            let n: usize = args.get(4).and_then(|s| s.parse().ok()).unwrap_or(200000);
            for _ in 0..n {
                if let Some((g, d)) = ag::search_gc_grammar(&mut rng, 1, min_d, true) {
                    println!("dropped={d}\n{}", g.normal_form());
                    found += 1;
                    if found >= 12 { break; }
                }
            }
        }
        "dbgparse" => {
            // vcheck dbgparse <grammar.y> <steps|prod> tok tok ...
            let src = std::fs::read_to_string(&args[2]).unwrap();
            let grm = cfgrammar::yacc::YaccGrammar::<u32>::new(cfgrammar::yacc::YaccKind::Original(cfgrammar::yacc::YaccOriginalActionKind::GenericParseTree), &src).unwrap();
            let (sg, st) = lrtable::from_yacc(&grm, lrtable::Minimiser::Pager).unwrap();
            println!("states={} conflicts={:?}", usize::from(sg.all_states_len()), st.conflicts().map(|c| (c.sr_len(), c.rr_len())));
            let ucost: u8 = std::env::var("UCOST").ok().and_then(|s| s.parse().ok()).unwrap_or(1);
            let toks: Vec<cfgrammar::TIdx<u32>> = args[4..].iter().map(|n| grm.token_idx(n).unwrap()).collect();
            let mut rng = rng::Rng::new(1);
            let si = lrx::syn_input(&toks, &mut rng, false);
            if args[3] == "steps" {
                lrpar::verif::set_recovery_budget_ms(Some(3_600_000));
                lrpar::verif::set_recovery_step_budget(Some(50_000));
            }
            let (tree, errs) = lrx::parse_tree(&grm, &st, &si, lrpar::RecoveryKind::CPCTPlus, &|_| ucost);
            println!("tree: {:?}", tree.map(|t| t.pp(&grm)));
            for e in &errs {
                if let lrpar::LexParseError::ParseError(pe) = e {
                    println!("error at {:?} state {}: {}", lrpar::Lexeme::span(pe.lexeme()), usize::from(pe.stidx()), pe.repairs().iter().map(|s| s.iter().map(|r| lrx::pp_repair(&grm, r)).collect::<Vec<_>>().join(", ")).collect::<Vec<_>>().join(" | "));
                }
            }
            println!("timeouts={}", lrpar::verif::timeouts_observed());
        }
        "digest15" => {
            c15::digest_main(args[2].parse().unwrap(), args[3].parse().unwrap(), args[4].parse().unwrap());
        }
        "ctstep18" => {
            c18::ctstep_main(&args[2], &args[3], &args[4], &args[5]);
        }
        "probe17" => {
            c17::probe_main(args[2].parse().unwrap(), args[3].parse().unwrap());
        }
        "dumpgrm17" => {
            let mut rng = rng::Rng::derive(args[2].parse().unwrap(), "C17", args[3].parse().unwrap(), 0);
            let g = c17::gen_c17(&mut rng);
            println!("{}\ncyclic={} productive={:?}", g.render(), refs::has_derivation_cycle(&g), refs::productive(&g));
        }
        "dumpgrm" => {
            let mut rng = rng::Rng::derive(args[3].parse().unwrap(), &args[2], args[4].parse().unwrap(), 0);
            let g = ag::gen_mixed(&mut rng, true);
            println!("{}\ncyclic={}", g.render(), refs::has_derivation_cycle(&g));
        }
        _ => {
            eprintln!("unknown command");
            std::process::exit(2);
        }
    }
}

//! C02 — state minimisation never costs an LR(1) grammar its determinism.
//! Differential against an independent canonical LR(1) construction and parser.

use crate::ag::*;
use crate::frame::*;
use crate::lrx::*;
use crate::refs::*;
use crate::rng::{hash_str, Rng};
use cfgrammar::TIdx;
use lrpar::{LexParseError, Lexeme, RecoveryKind};
use serde_json::json;

pub struct C02;

fn same_tree(b: &Built, rt: &RTree, t: &Tree, si: &SynInput) -> bool {
    match (rt, t) {
        (RTree::Term(tok, pos), Tree::Term { tidx, start, end, faulty }) => {
            u32::from(b.tok[*tok]) == *tidx && !*faulty && si.lexemes.get(*pos).is_some_and(|l| l.span().start() == *start && l.span().end() == *end)
        }
        (RTree::Node(r, _, kids), Tree::Nonterm { ridx, kids: k2 }) => {
            u32::from(b.rule[*r]) == *ridx && kids.len() == k2.len() && kids.iter().zip(k2.iter()).all(|(a, c)| same_tree(b, a, c, si))
        }
        _ => false,
    }
}

impl Check for C02 {
    fn id(&self) -> &'static str {
        "C02"
    }
    fn ncases(&self, tier: Tier) -> u64 {
        tier.sz(20000, 300000)
    }
    fn rule(&self) -> &'static str {
        "one base grammar per case (LR(1)-not-LALR(1) templates and embeddings, 'lookahead squares' with many same-core states, random LR(1) grammars), each in 8 isomorphic permutations (rule, alternative and token order) to vary hash iteration order and merge schedule; for every permutation whose canonical LR(1) automaton (harness construction) is conflict-free: Pager table must report no conflicts, have <= canonical states, and agree with the canonical parser on tree / first-error lexeme for sampled sentences, mutants and random strings. Non-trivial = LR(1) grammar where Pager has strictly fewer states than canonical (a merge happened); distinct by normalised grammar."
    }
    fn assumptions(&self) -> Vec<&'static str> {
        vec!["the canonical LR(1) construction and its parser are the harness's own (refs.rs); state cap 600 (beyond: inconclusive)", "first-error position is compared as lexeme index"]
    }
    fn floor(&self, tier: Tier) -> u64 {
        tier.sz(8000, 80000)
    }
    fn required_counters(&self, _t: Tier) -> Vec<&'static str> {
        vec!["lr1_grammars", "non_lalr_grammars", "grammars_with_merges", "inputs_compared", "trees_compared", "errors_compared", "pager_merges", "pager_states_requeued", "grammars_where_gc_dropped_states"]
    }
    fn run_case(&self, seed: u64, idx: u64, tier: Tier) -> CaseOut {
        // thorough tier: every third case draws its random grammars from the medium-sized family
        set_size_boost(tier == Tier::Thorough && idx % 3 == 1);
        let mut out = CaseOut::new();
        let mut rng = Rng::derive(seed, "C02", idx, 0);
        let gc_base = if idx % 6 == 0 { Some(gen_gc_seed(&mut rng)) } else { None };
        let base = if let Some(g) = gc_base { g } else { match rng.weighted(&[35, 30, 35]) {
            0 => {
                let mut g = gen_nonlalr(&mut rng);
                g.compact();
                g
            }
            1 => gen_lookahead_square(&mut rng),
            _ => gen_lr1(&mut rng),
        } };
        for perm in 0..8 {
            let ag = if perm == 0 { base.clone() } else { permute(&base, &mut rng) };
            let Some(canon) = canonical_lr1(&ag, 600) else {
                out.inconclusive("canonical LR(1) construction exceeded its state cap");
                continue;
            };
            if canon.conflicts > 0 || has_derivation_cycle(&ag) {
                out.count("not_lr1", 1);
                continue;
            }
            out.count("lr1_grammars", 1);
            if canon.lalr_conflicts > 0 {
                out.count("non_lalr_grammars", 1);
            }
            let b = match build_grm(&ag) {
                Ok(b) => b,
                Err(e) => {
                    out.violate("grammar-build-failed", &["harness"], e, ag.to_json());
                    continue;
                }
            };
            lrtable::verif::reset();
            let tbl = guarded(|| b.table());
            let (merges, requeues, dropped) = lrtable::verif::counters();
            out.count("pager_merges", merges);
            out.count("pager_states_requeued", requeues);
            out.count("pager_gc_dropped_states", dropped);
            if dropped > 0 {
                out.count("grammars_where_gc_dropped_states", 1);
            }
            let (sg, st) = match tbl {
                Ok(Ok(x)) => x,
                Ok(Err(e)) => {
                    out.violate("lr1-grammar-refused", &[], format!("from_yacc failed on an LR(1) grammar: {e}"), ag.to_json());
                    continue;
                }
                Err(p) => {
                    out.violate("panic", &["from_yacc"], format!("from_yacc panicked: {p}"), ag.to_json());
                    continue;
                }
            };
            out.evals += 1;
            let detail = |x: serde_json::Value| json!({"grammar": b.src, "obs": x});
            if let Some(c) = st.conflicts() {
                out.violate("conflicts-on-lr1-grammar", &[], format!("grammar is LR(1) (canonical automaton has {} states, no conflicts) but table construction reports {} s/r and {} r/r conflicts", canon.states.len(), c.sr_len(), c.rr_len()), detail(json!({"lalr_conflicts": canon.lalr_conflicts})));
            }
            let ps = usize::from(sg.all_states_len());
            if ps > canon.states.len() {
                out.violate("more-states-than-canonical", &[], format!("minimised automaton has {ps} states, canonical LR(1) has {}", canon.states.len()), detail(json!(null)));
            }
            if ps < canon.states.len() {
                out.count("grammars_with_merges", 1);
                out.nontrivial(hash_str(&ag.normal_form()));
            }
            out.max("states_saved", (canon.states.len().saturating_sub(ps)) as u64);
            if st.conflicts().is_some() {
                continue;
            }
            // inputs
            let nt = ag.tokens.len();
            let mut inputs: Vec<Vec<usize>> = vec![vec![]];
            for _ in 0..tier.sz(10, 25) {
                let d = rng.range(1, 7);
                if let Some(s) = sample_sentence(&ag, &mut rng, ag.start, d) {
                    if s.len() <= 24 {
                        let ne = rng.range(1, 2);
                        inputs.push(mutate(&mut rng, &s, nt, ne));
                        // every proper prefix is an interesting EOF-error input: take one
                        if !s.is_empty() {
                            let k = rng.below(s.len());
                            inputs.push(s[..k].to_vec());
                        }
                        inputs.push(s);
                    }
                }
            }
            for _ in 0..tier.sz(5, 15) {
                inputs.push(random_tokens(&mut rng, nt, 8));
            }
            for inp in &inputs {
                let toks: Vec<TIdx<u32>> = inp.iter().map(|t| b.tok[*t]).collect();
                let si = syn_input(&toks, &mut rng, true);
                out.evals += 1;
                out.count("inputs_compared", 1);
                let idetail = |x: String| json!({"grammar": b.src, "input": inp.iter().map(|t| ag.tokens[*t].name.clone()).collect::<Vec<_>>(), "obs": x});
                let (tree, errs) = match guarded(|| parse_tree(&b.grm, &st, &si, RecoveryKind::None, &|_| 1)) {
                    Ok(x) => x,
                    Err(p) => {
                        out.violate("panic", &["parse"], format!("parse panicked: {p}"), idetail(String::new()));
                        continue;
                    }
                };
                match canon.parse(inp) {
                    Ok(rt) => {
                        out.count("trees_compared", 1);
                        match (&tree, errs.is_empty()) {
                            (Some(t), true) => {
                                if !same_tree(&b, &rt, t, &si) {
                                    out.violate("tree-differs-from-canonical", &[], "parser and canonical LR(1) parser built different trees".into(), idetail(t.pp(&b.grm)));
                                }
                            }
                            _ => out.violate("sentence-rejected", &[], "canonical LR(1) parser accepts the input but the generated parser reports an error".into(), idetail(String::new())),
                        }
                    }
                    Err(i) => {
                        out.count("errors_compared", 1);
                        if tree.is_some() || errs.len() != 1 {
                            out.violate("non-sentence-accepted", &[], format!("canonical LR(1) parser rejects at lexeme {i} but the generated parser returned value={} errors={}", tree.is_some(), errs.len()), idetail(String::new()));
                            continue;
                        }
                        match &errs[0] {
                            LexParseError::ParseError(e) => {
                                let sp = e.lexeme().span();
                                let got = if i == inp.len() && sp.start() == si.eof_pos() && sp.is_empty() { Some(inp.len()) } else { si.index_of_span(sp) };
                                let got = if got.is_none() && sp.is_empty() && sp.start() == si.eof_pos() { Some(inp.len()) } else { got };
                                if got != Some(i) {
                                    out.violate("first-error-differs-from-canonical", &[], format!("canonical LR(1) parser detects the error at lexeme {i}, the generated parser at {:?} (span {}..{})", got, sp.start(), sp.end()), idetail(String::new()));
                                }
                            }
                            _ => out.violate("unexpected-lex-error", &["harness"], "lex error from the synthetic lexer".into(), idetail(String::new())),
                        }
                    }
                }
            }
            if perm == 0 && idx % 41 == 0 {
                out.sample = Some(json!({"grammar": b.src, "family": ag.family, "canonical_states": canon.states.len(), "pager_states": ps, "lalr_would_conflict": canon.lalr_conflicts > 0, "inputs": inputs.len()}));
            }
        }
        out
    }
}

//! C10 — a grammar object is a faithful, well-formed image of its `.y` source (print-then-parse).

use crate::ag::*;
use crate::frame::*;
use crate::rng::{hash_str, Rng};
use crate::yrender::*;
use cfgrammar::yacc::{AssocKind, YaccGrammar};
use cfgrammar::{PIdx, RIdx, Symbol, TIdx};
use serde_json::json;
use std::collections::BTreeSet;
use std::str::FromStr;

pub struct C10;

fn kind_of(a: Assoc) -> AssocKind {
    match a {
        Assoc::Left => AssocKind::Left,
        Assoc::Right => AssocKind::Right,
        Assoc::Nonassoc => AssocKind::Nonassoc,
    }
}

pub fn check_image(ag: &AG, rd: &RenderedY, grm: &YaccGrammar<u32>, out: &mut CaseOut, tags: &[&str]) {
    let src = &rd.text;
    let detail = |x: String| json!({"grammar": src, "kind": ag.kind.name(), "obs": x});
    let mut bad = |out: &mut CaseOut, kind: &str, what: String| out.violate(kind, tags, what, detail(String::new()));
    let implicit = ag.kind == AKind::Eco && !ag.implicit_tokens.is_empty();
    let extra_rules = if implicit { 3 } else { 1 };
    // sizes and density
    let nr = usize::from(grm.rules_len());
    let np = usize::from(grm.prods_len());
    let ntok = usize::from(grm.tokens_len());
    if nr != ag.rules.len() + extra_rules {
        bad(out, "rule-count", format!("{} rules, expected {} user rules + {}", nr, ag.rules.len(), extra_rules));
        return;
    }
    if ntok != ag.tokens.len() + 1 {
        bad(out, "token-count", format!("{} tokens, expected {} + end-of-input", ntok, ag.tokens.len()));
        return;
    }
    let extra_prods = if implicit { 1 + 1 + ag.implicit_tokens.len() + 1 } else { 1 };
    if np != ag.nprods() + extra_prods {
        bad(out, "production-count", format!("{} productions, expected {} + {}", np, ag.nprods(), extra_prods));
        return;
    }
    if grm.iter_rules().map(usize::from).collect::<Vec<_>>() != (0..nr).collect::<Vec<_>>() || grm.iter_pidxs().map(usize::from).collect::<Vec<_>>() != (0..np).collect::<Vec<_>>() || grm.iter_tidxs().map(usize::from).collect::<Vec<_>>() != (0..ntok).collect::<Vec<_>>() {
        bad(out, "not-dense", "rules, productions or tokens are not numbered densely from zero".into());
    }
    out.count("accessor_comparisons", 3);
    // tokens
    let mut tmap: Vec<Option<TIdx<u32>>> = vec![];
    let mut seen_t = BTreeSet::new();
    for (ti, t) in ag.tokens.iter().enumerate() {
        match grm.token_idx(&t.name) {
            None => {
                bad(out, "token-missing", format!("token {:?} is missing", t.name));
                tmap.push(None);
            }
            Some(x) => {
                if usize::from(x) >= ntok || !seen_t.insert(usize::from(x)) {
                    bad(out, "token-index", format!("token {:?} has an out-of-range or duplicate index", t.name));
                }
                if grm.token_name(x) != Some(t.name.as_str()) {
                    bad(out, "token-name", format!("token_name(token_idx({:?})) = {:?}", t.name, grm.token_name(x)));
                }
                // precedence
                let want = ag.token_prec(ti).map(|(l, a)| (l as u64, kind_of(a)));
                let got = grm.token_precedence(x).map(|p| (p.level, p.kind));
                let ok = match (want, got) {
                    (None, None) => true,
                    (Some((_, wa)), Some((_, ga))) => wa == ga,
                    _ => false,
                };
                if !ok {
                    bad(out, "token-precedence", format!("token {:?} has precedence {:?}, expected {:?}", t.name, got, want));
                }
                // epp
                let want_epp = ag.epp.iter().find(|(e, _)| *e == ti).map(|(_, s)| s.as_str()).unwrap_or(t.name.as_str());
                if grm.token_epp(x) != Some(want_epp) {
                    bad(out, "token-epp", format!("token {:?} has %epp {:?}, expected {:?}", t.name, grm.token_epp(x), want_epp));
                }
                if grm.avoid_insert(x) != ag.avoid_insert.contains(&ti) {
                    bad(out, "avoid-insert", format!("avoid_insert({:?}) = {}", t.name, grm.avoid_insert(x)));
                }
                // span
                match grm.token_span(x) {
                    None => bad(out, "token-span", format!("token {:?} has no span", t.name)),
                    Some(sp) => {
                        let ok = sp.end() <= src.len() && src.is_char_boundary(sp.start()) && src.is_char_boundary(sp.end()) && &src[sp.start()..sp.end()] == t.name.as_str();
                        if !ok {
                            bad(out, "token-span", format!("token_span of {:?} is {}..{}, which is not an occurrence of its name", t.name, sp.start(), sp.end()));
                        } else if !rd.token_occurrences[ti].contains(&(sp.start(), sp.end())) {
                            bad(out, "token-span", format!("token_span of {:?} is {}..{}, which is not a place where the token was written", t.name, sp.start(), sp.end()));
                        }
                    }
                }
                out.count("accessor_comparisons", 6);
                tmap.push(Some(x));
            }
        }
    }
    // relative precedence levels: order of levels must follow declaration order
    {
        let mut lv: Vec<(usize, u64)> = vec![];
        for (ti, t) in tmap.iter().enumerate() {
            if let (Some(x), Some((l, _))) = (t, ag.token_prec(ti)) {
                if let Some(p) = grm.token_precedence(*x) {
                    lv.push((l, p.level));
                }
            }
        }
        for a in &lv {
            for b in &lv {
                if (a.0 < b.0) != (a.1 < b.1) || (a.0 == b.0) != (a.1 == b.1) {
                    bad(out, "precedence-levels", "token precedence levels do not follow declaration order".into());
                    break;
                }
            }
        }
    }
    // the EOF token
    let eof = grm.eof_token_idx();
    if grm.token_name(eof).is_some() || seen_t.contains(&usize::from(eof)) || usize::from(eof) >= ntok {
        bad(out, "eof-token", "the end-of-input token is named, or clashes with a user token".into());
    }
    // rules
    let mut rmap: Vec<RIdx<u32>> = vec![];
    for r in &ag.rules {
        match grm.rule_idx(&r.name) {
            None => {
                bad(out, "rule-missing", format!("rule {:?} is missing", r.name));
                return;
            }
            Some(x) => rmap.push(x),
        }
    }
    // order of first definition
    for w in rmap.windows(2) {
        if w[0] >= w[1] {
            bad(out, "rule-order", "user rules are not numbered in order of first definition".into());
        }
    }
    if usize::from(grm.start_rule_idx()) >= nr || rmap.contains(&grm.start_rule_idx()) {
        bad(out, "start-rule", "the added start rule clashes with a user rule".into());
    }
    let sp = grm.start_prod();
    let want_start: Vec<Symbol<u32>> = if implicit { vec![] } else { vec![Symbol::Rule(rmap[ag.start])] };
    if usize::from(sp) >= np || grm.prod_to_rule(sp) != grm.start_rule_idx() || grm.rule_to_prods(grm.start_rule_idx()) != [sp] {
        bad(out, "start-production", "the start rule does not have exactly one production (the start production)".into());
    } else if !implicit && grm.prod(sp) != want_start.as_slice() {
        bad(out, "start-production", format!("the start production is {:?}, expected it to derive the user's start rule {}", grm.pp_prod(sp), ag.rules[ag.start].name));
    }
    if grm.implicit_rule().is_some() != implicit {
        bad(out, "implicit-rule", format!("implicit_rule() = {:?}", grm.implicit_rule().map(usize::from)));
    }
    // Eco implicit-token rewrite shape
    if implicit {
        if let Some(ir) = grm.implicit_rule() {
            let prods = grm.rule_to_prods(ir);
            let mut seen: BTreeSet<usize> = BTreeSet::new();
            let mut empties = 0;
            for p in prods {
                let pr = grm.prod(*p);
                match pr {
                    [] => empties += 1,
                    [Symbol::Token(t), Symbol::Rule(r)] if *r == ir => {
                        seen.insert(usize::from(*t));
                    }
                    _ => bad(out, "implicit-rule-shape", format!("unexpected production of the implicit rule: {}", grm.pp_prod(*p))),
                }
            }
            let want: BTreeSet<usize> = ag.implicit_tokens.iter().filter_map(|t| tmap[*t].map(usize::from)).collect();
            if empties != 1 || seen != want {
                bad(out, "implicit-rule-shape", "the implicit rule is not  ~: T1 ~ | ... | Tn ~ | ;  over the declared implicit tokens".into());
            }
        }
    }
    // productions in source order
    let mut next_pidx_per_rule: Vec<usize> = vec![0; ag.rules.len()];
    for (k, (ri, pi, (a, b))) in rd.prods_in_order.iter().enumerate() {
        out.count("accessor_comparisons", 6);
        let prods = grm.rule_to_prods(rmap[*ri]);
        let slot = next_pidx_per_rule[*ri];
        next_pidx_per_rule[*ri] += 1;
        let Some(&p) = prods.get(slot) else {
            bad(out, "rule-productions", format!("rule {} has too few productions", ag.rules[*ri].name));
            continue;
        };
        if usize::from(p) != k {
            bad(out, "production-order", format!("the {k}-th production in the source has index {}", usize::from(p)));
        }
        if grm.prod_to_rule(p) != rmap[*ri] {
            bad(out, "prod-to-rule", format!("prod_to_rule({}) is not its rule {}", usize::from(p), ag.rules[*ri].name));
        }
        let ap = &ag.rules[*ri].prods[*pi];
        let mut want: Vec<Symbol<u32>> = vec![];
        for s in &ap.syms {
            match s {
                ASym::T(t) => {
                    if let Some(x) = tmap[*t] {
                        want.push(Symbol::Token(x));
                        if implicit {
                            want.push(Symbol::Rule(grm.implicit_rule().unwrap_or(RIdx(0))));
                        }
                    }
                }
                ASym::R(r) => want.push(Symbol::Rule(rmap[*r])),
            }
        }
        if grm.prod(p) != want.as_slice() {
            bad(out, "production-symbols", format!("production {} of {} is '{}', expected symbols {:?}", pi, ag.rules[*ri].name, grm.pp_prod(p), ap.syms.iter().map(|s| ag.pp_sym(s)).collect::<Vec<_>>()));
        }
        if usize::from(grm.prod_len(p)) != want.len() {
            bad(out, "production-length", format!("prod_len of '{}' is {}", grm.pp_prod(p), usize::from(grm.prod_len(p))));
        }
        // precedence of the production
        let wantp = ag.prod_prec(*ri, *pi).map(|(_, a)| kind_of(a));
        let gotp = grm.prod_precedence(p).map(|x| x.kind);
        let lvl_ok = match (ag.prod_prec(*ri, *pi), grm.prod_precedence(p)) {
            (Some((l, _)), Some(g)) => {
                // same level as a token of that level
                ag.precs[l].1.iter().filter_map(|t| tmap[*t]).filter_map(|t| grm.token_precedence(t)).all(|tp| tp.level == g.level)
            }
            (None, None) => true,
            _ => false,
        };
        if wantp != gotp || !lvl_ok {
            bad(out, "production-precedence", format!("production '{}' has precedence {:?}, expected {:?}", grm.pp_prod(p), grm.prod_precedence(p), ag.prod_prec(*ri, *pi)));
        }
        // action
        if grm.action(p).as_deref() != ap.action.as_deref() {
            bad(out, "action-text", format!("action of '{}' is {:?}, expected {:?}", grm.pp_prod(p), grm.action(p), ap.action));
        }
        // span
        let sp = grm.prod_span(p);
        let ok = if ap.syms.is_empty() && ap.prec.is_none() && sp.is_empty() {
            // no text of its own: a zero-length span between the start of the alternative and its
            // terminating '|' or ';' (skipping blanks/comments), or the span of a %empty marker
            sp.start() >= *a && sp.end() <= *b.max(a)
        } else {
            // ends at the end of the last symbol / %prec token, or anywhere in the blank/comment gap up
            // to the action's opening brace
            sp.start() <= sp.end() && sp.end() <= src.len() && sp.start() >= *a && sp.end() <= *b.max(a) && (ap.syms.is_empty() || sp.start() == *a) && (ap.syms.is_empty() || sp.end() > *a)
        };
        if !ok {
            bad(out, "production-span", format!("prod_span of '{}' is {}..{}, but the alternative was written at {}..{}", grm.pp_prod(p), sp.start(), sp.end(), a, b));
        }
    }
    for (ri, r) in ag.rules.iter().enumerate() {
        out.count("accessor_comparisons", 3);
        if grm.rule_to_prods(rmap[ri]).len() != r.prods.len() {
            bad(out, "rule-productions", format!("rule {} has {} productions, expected {}", r.name, grm.rule_to_prods(rmap[ri]).len(), r.prods.len()));
        }
        if grm.rule_name_str(rmap[ri]) != r.name {
            bad(out, "rule-name", format!("rule_name_str = {:?}, expected {:?}", grm.rule_name_str(rmap[ri]), r.name));
        }
        let sp = grm.rule_name_span(rmap[ri]);
        if Some((sp.start(), sp.end())) != rd.rule_name_first[ri] {
            bad(out, "rule-name-span", format!("rule_name_span of {} is {}..{}, its first definition is at {:?}", r.name, sp.start(), sp.end(), rd.rule_name_first[ri]));
        }
        let want_at = match ag.kind {
            AKind::Grmtools => r.actiontype.clone().or(Some("()".to_string())),
            AKind::OriginalUser => Some(ag.rules[0].actiontype.clone().unwrap_or("u64".to_string())),
            _ => None,
        };
        if *grm.actiontype(rmap[ri]) != want_at {
            bad(out, "action-type", format!("actiontype of {} is {:?}, expected {:?}", r.name, grm.actiontype(rmap[ri]), want_at));
        }
    }
    if grm.expect() != ag.expect || grm.expectrr() != ag.expectrr {
        bad(out, "expect", format!("%expect/%expect-rr are {:?}/{:?}, expected {:?}/{:?}", grm.expect(), grm.expectrr(), ag.expect, ag.expectrr));
    }
    if *grm.parse_param() != ag.parse_param {
        bad(out, "parse-param", format!("parse_param is {:?}, expected {:?}", grm.parse_param(), ag.parse_param));
    }
    // every per-production accessor works for every production index the API hands out
    // (including the start production and the Eco implicit rules' productions)
    for p in grm.iter_pidxs() {
        let _ = (grm.action(p), grm.action_span(p), grm.prod_span(p), grm.prod_precedence(p), grm.pp_prod(p), grm.prod_len(p));
        out.count("accessor_comparisons", 5);
    }
    for r in grm.iter_rules() {
        let _ = (grm.rule_name_span(r), grm.actiontype(r), grm.rule_to_prods(r).len(), grm.rule_name_str(r).len());
    }
    for t in grm.iter_tidxs() {
        let _ = (grm.token_span(t), grm.token_epp(t), grm.token_precedence(t), grm.avoid_insert(t));
    }
    // every index returned is in range
    for p in grm.iter_pidxs() {
        for s in grm.prod(p) {
            let ok = match s {
                Symbol::Rule(r) => usize::from(*r) < nr,
                Symbol::Token(t) => usize::from(*t) < ntok,
            };
            if !ok {
                bad(out, "index-out-of-range", format!("production {} mentions an out-of-range symbol", usize::from(p)));
            }
        }
        if usize::from(grm.prod_to_rule(p)) >= nr {
            bad(out, "index-out-of-range", "prod_to_rule out of range".into());
        }
    }
    let _ = PIdx(0u32);
}

impl Check for C10 {
    fn id(&self) -> &'static str {
        "C10"
    }
    fn ncases(&self, tier: Tier) -> u64 {
        tier.sz(32000, 500000)
    }
    fn rule(&self) -> &'static str {
        "one abstract grammar per case, decorated with optional constructs (%token bare names, precedence levels, %prec, %epp, %avoid_insert, %expect(-rr), %parse-param, actions, action types, Eco %implicit_tokens; symbol/identifier/multi-byte/quote-containing token names) and rendered in 6 (quick) / 12 (thorough) layouts (spaces/tabs/newlines/CRLF, // and /* */ comments incl. tricky contents at every legal gap, ' vs \" vs bare names, shuffled declaration order, split rule definitions, %empty, %grmtools header + from_str); every accessor of the built YaccGrammar is compared with the abstract grammar (rules in order of first definition, productions in source order, symbols, start production, token set, precedences, %epp, %avoid_insert, %expect, actions, action types, parse-param, density, index ranges, rule/token/production spans). Non-trivial = rendering uses >= 4 distinct optional constructs; distinct by rendering text."
    }
    fn assumptions(&self) -> Vec<&'static str> {
        vec!["token numbering order is not asserted (only density and set equality)", "action spans and the span of the added start production are outside the statement"]
    }
    fn floor(&self, tier: Tier) -> u64 {
        tier.sz(20000, 200000)
    }
    fn required_counters(&self, _t: Tier) -> Vec<&'static str> {
        vec!["renderings", "accessor_comparisons", "renderings_with_header", "renderings_eco_implicit", "renderings_with_split_rules", "renderings_with_comments"]
    }
    fn run_case(&self, seed: u64, idx: u64, tier: Tier) -> CaseOut {
        let mut out = CaseOut::new();
        let mut rng = Rng::derive(seed, "C10", idx, 0);
        let mut ag = gen_mixed(&mut rng, true);
        decorate(&mut ag, &mut rng);
        for k in 0..tier.sz(6, 12) {
            let o = YOpts::random(&mut rng);
            let rd = render_fancy(&ag, &mut rng, &o);
            out.count("renderings", 1);
            if rd.has_header {
                out.count("renderings_with_header", 1);
            }
            if ag.kind == AKind::Eco && !ag.implicit_tokens.is_empty() {
                out.count("renderings_eco_implicit", 1);
            }
            if rd.constructs.contains(&"split-rule") {
                out.count("renderings_with_split_rules", 1);
            }
            if o.comments {
                out.count("renderings_with_comments", 1);
            }
            out.evals += 1;
            let tricky = o.comments && o.tricky_comments && rd.text.contains("// old comment");
            let tags: Vec<&str> = if tricky { vec!["block_comment_with_line_starting_with_slash"] } else { vec![] };
            let built = guarded(|| if rd.has_header && k % 2 == 0 { YaccGrammar::<u32>::from_str(&rd.text) } else { YaccGrammar::<u32>::new(ag.kind.yacckind(), &rd.text) });
            match built {
                Err(p) => out.violate("panic", &["build"], format!("building the grammar panicked: {p}"), json!({"grammar": rd.text, "kind": ag.kind.name()})),
                Ok(Err(e)) => out.violate("valid-grammar-rejected", &tags, format!("a valid grammar was rejected: {:?}", e.iter().map(|x| format!("{x} @ {:?}", cfgrammar::Spanned::spans(x))).collect::<Vec<_>>()), json!({"grammar": rd.text, "kind": ag.kind.name()})),
                Ok(Ok(grm)) => {
                    if rd.constructs.len() >= 4 {
                        out.nontrivial(hash_str(&rd.text));
                    }
                    let r = guarded(|| {
                        let mut o2 = CaseOut::new();
                        check_image(&ag, &rd, &grm, &mut o2, &tags);
                        o2
                    });
                    match r {
                        Err(p) => out.violate("panic", &["accessor"], format!("an accessor panicked: {p}"), json!({"grammar": rd.text, "kind": ag.kind.name()})),
                        Ok(o2) => {
                            for (k2, v) in o2.counters {
                                out.count(&k2, v);
                            }
                            out.violations.extend(o2.violations);
                        }
                    }
                }
            }
            if k == 0 && idx % 101 == 0 {
                out.sample = Some(json!({"grammar": rd.text, "kind": ag.kind.name(), "constructs": rd.constructs}));
            }
        }
        out
    }
}

//! C07 — error recovery always progresses and the error list matches the outcome.
//! Checker over the recorded result of each parse (positions, repair presence, value presence,
//! return), with the production wall-clock budget (faithful) and with logical step budgets.

use crate::ag::*;
use crate::frame::*;
use crate::lrx::*;
use crate::rec::*;
use crate::refs::*;
use crate::rng::{hash_str, Rng};
use cfgrammar::TIdx;
use serde_json::json;

pub struct C07;

impl Check for C07 {
    fn id(&self) -> &'static str {
        "C07"
    }
    fn ncases(&self, tier: Tier) -> u64 {
        tier.sz(3200, 40000)
    }
    fn rule(&self) -> &'static str {
        "per case one generated grammar without derivation cycle (and whose table has no endless reduction loop), a cost table and 5 inputs: long inputs with up to 10 independent errors (up to 40/60 lexemes), pure garbage, deeply nested prefixes cut off at end of input; parsed (a) with the production 500 ms wall-clock budget and (b) with logical step budgets {50, 500, 5000} so that 'budget ran out mid-parse' paths are driven deterministically, (c) with real wall-clock budgets of 0 and 2 ms (the parser's own deadline arithmetic), (d) every fourth case: one input under every step budget 0..40 (the budget expires inside each phase of a recovery); every 16th case instead: a sentence followed by k junk lexemes whose only repair is k deletions costing 65535-2d .. 65535+3d in total (the u16 cost ceiling); every 32nd case instead: S: A^K 'end' (K = 15..20, A: 'p' | 'q') with the A's missing, under the production budget (one success node stands for 2^K merged sequences); checked: the parse returns; error lexemes strictly increase; consecutive errors are >= 3 real lexemes apart (measured from where parsing resumed after the repair) unless the later one is at/after the end of input; count <= n+1; every error but the last has a repair; value <=> every error has a repair; (value, no errors) => input is a sentence (Earley) with leaves = input. Non-trivial = parse with >= 2 errors; distinct by (grammar, input, budget)."
    }
    fn assumptions(&self) -> Vec<&'static str> {
        vec![
            "grammars are restricted to those without derivation cycles (property) and, additionally, to tables without an endless epsilon/unit reduction loop (conflicting grammars with hidden left recursion make any Yacc-style parser loop; counted, not parsed)",
            "'returns' is decided by the per-case watchdog with isolated confirmation, never by a wall-clock threshold inside the case",
        ]
    }
    fn floor(&self, tier: Tier) -> u64 {
        tier.sz(1200, 15000)
    }
    fn required_counters(&self, _t: Tier) -> Vec<&'static str> {
        vec!["parses", "parses_with_2plus_errors", "parses_where_budget_ran_out", "parses_production_budget", "errors_at_eof", "accepted_unchanged", "budget_sweeps", "parses_with_exponentially_many_merged_sequences", "parses_at_the_cost_ceiling", "ceiling_inputs_repaired", "ceiling_inputs_given_up"]
    }
    fn case_cap_s(&self, _t: Tier) -> u64 {
        45
    }
    fn hang_is_violation(&self) -> bool {
        true
    }
    fn run_case(&self, seed: u64, idx: u64, tier: Tier) -> CaseOut {
        let mut out = CaseOut::new();
        if (idx / 16 + idx) % 32 == 9 {
            return wide_merge_case(seed, idx);
        }
        if (idx / 16 + idx) % 16 == 5 {
            // (selector spread over all worker shards)
            return cost_ceiling_case(seed, idx);
        }
        let mut rng = Rng::derive(seed, "C07", idx, 0);
        let Some(rc) = gen_rec_case(&mut rng, false) else {
            out.count("no_suitable_grammar", 1);
            return out;
        };
        let costs = rc.costs.clone();
        let b = &rc.b;
        let cost = |t: TIdx<u32>| -> u8 { b.tidx_to_ag[usize::from(t)].map(|a| costs[a]).unwrap_or(1) };
        let gh = hash_str(&rc.ag.normal_form());
        let ea = Earley::new(&rc.ag);
        let nt = rc.ag.tokens.len();
        let conflict_table = rc.st.conflicts().is_some() || !rc.ag.precs.is_empty();
        for k in 0..5 {
            // input
            let maxlen = tier.sz(40, 60) as usize;
            let inp: Vec<usize> = match rng.below(5) {
                0 => random_tokens(&mut rng, nt, 12), // garbage
                1 => {
                    // long sentence cut off (error at end of input)
                    let mut v = vec![];
                    for _ in 0..20 {
                        if let Some(s) = sample_sentence(&rc.ag, &mut rng, rc.ag.start, 12) {
                            if s.len() > v.len() && s.len() <= maxlen {
                                v = s;
                            }
                        }
                    }
                    if !v.is_empty() {
                        let cut = rng.range(v.len() / 2, v.len() - 1);
                        v.truncate(cut);
                    }
                    v
                }
                2 => {
                    // occasionally a correct sentence
                    sample_sentence(&rc.ag, &mut rng, rc.ag.start, 8).filter(|s| s.len() <= maxlen).unwrap_or_default()
                }
                _ => {
                    let mut best = vec![];
                    for _ in 0..12 {
                        if let Some(s) = sample_sentence(&rc.ag, &mut rng, rc.ag.start, 12) {
                            if s.len() > best.len() && s.len() <= maxlen {
                                best = s;
                            }
                        }
                    }
                    let ne = rng.range(2, 10);
                    mutate(&mut rng, &best, nt, ne)
                }
            };
            let toks: Vec<TIdx<u32>> = inp.iter().map(|t| b.tok[*t]).collect();
            let si = syn_input(&toks, &mut rng, true);
            let n = toks.len();
            let budgets: Vec<(Budget, String)> = if k == 0 && idx % 4 == 0 {
                // fine sweep: every step budget from 0 to 40, so that the budget also runs out in the middle
                // of each phase of a recovery (search, flattening, ranking), not only between phases
                out.count("budget_sweeps", 1);
                (0..=40u64).map(|n| (Budget::Steps(n), format!("steps-{n}"))).collect()
            } else {
                vec![match (idx + k) % 5 {
                    0 => (Budget::Production, "production-500ms".to_string()),
                    1 => (Budget::Steps(50), "steps-50".to_string()),
                    2 => (Budget::Steps(500), "steps-500".to_string()),
                    3 => (Budget::WallMs(if k % 2 == 0 { 0 } else { 2 }), "wall-clock-0-or-2ms".to_string()),
                    _ => (Budget::Steps(5000), "steps-5000".to_string()),
                }]
            };
            for (budget, bname) in budgets {
            let bname = bname.as_str();
            out.evals += 1;
            out.count("parses", 1);
            let detail = |x: String| json!({"grammar": b.src, "input": inp.iter().map(|t| rc.ag.tokens[*t].name.clone()).collect::<Vec<_>>(), "budget": bname, "token_costs": rc.ag.tokens.iter().zip(costs.iter()).map(|(t, c)| json!([t.name, c])).collect::<Vec<_>>(), "obs": x});
            trace(|| format!("budget {bname}; costs {:?}; input {:?}; grammar {}", costs, inp.iter().map(|t| rc.ag.tokens[*t].name.clone()).collect::<Vec<_>>().join(" "), b.src.replace('\n', " ")));
            let rec = match record_parse(b, &rc.st, &si, &cost, budget) {
                Ok(r) => r,
                Err(p) => {
                    out.violate("panic", &["parse"], format!("parse with recovery panicked instead of returning: {p}"), detail(String::new()));
                    continue;
                }
            };
            if matches!(budget, Budget::Production) {
                out.count("parses_production_budget", 1);
                out.max("production_parse_wall_ms", rec.wall_ms as u64);
            }
            if rec.timeouts > 0 {
                out.count("parses_where_budget_ran_out", 1);
            }
            for m in &rec.malformed {
                out.violate("malformed-result", &[], m.clone(), detail(String::new()));
            }
            // does this parse contain a repair sequence that only works under the search's semantics
            // (the known C05 finding)? Then its consequences here carry that tag.
            let (rviol, _, _) = replay_model(b, &rc.st, &si, &toks, &rec);
            let mech = conflict_table && rviol.iter().any(|v| v.2.contains(&"valid_only_with_reductions_under_real_lookahead"));
            let mtags: Vec<&str> = if mech { vec!["parse_has_sequence_valid_only_with_reductions_under_real_lookahead", "table_has_resolved_conflicts"] } else { vec![] };
            let errs = &rec.errors;
            let summary = || format!("errors at lexemes {:?} (repairs per error: {:?}), value={}", errs.iter().take(40).map(|e| e.at).collect::<Vec<_>>(), errs.iter().take(40).map(|e| e.repairs.len()).collect::<Vec<_>>(), rec.tree.is_some());
            out.max("errors_in_one_parse", errs.len() as u64);
            if errs.len() >= 2 {
                out.count("parses_with_2plus_errors", 1);
                out.nontrivial(gh ^ hash_str(&format!("{inp:?}{bname}")));
            }
            if errs.iter().any(|e| e.at == n) {
                out.count("errors_at_eof", 1);
            }
            // count bound
            if errs.len() > n + 1 {
                out.violate("too-many-errors", &mtags, format!("{} errors for an input of {} lexemes", errs.len(), n), detail(summary()));
            }
            // positions strictly increasing, gaps
            for w in 0..errs.len().saturating_sub(1) {
                let (e1, e2) = (&errs[w], &errs[w + 1]);
                if e1.repairs.is_empty() {
                    out.violate("error-after-unrepaired-error", &[], format!("error #{w} has no repair sequence but is followed by another error"), detail(summary()));
                    continue;
                }
                // where parsing resumed after e1's first repair: count deletes/shifts consumed
                let consumed = e1.repairs[0].iter().filter(|r| matches!(r, Rep::Delete(_) | Rep::Shift(_))).count();
                let resume = e1.at + consumed;
                let tags = mtags.clone();
                if e2.at <= e1.at {
                    out.violate("errors-not-increasing", &tags, format!("error #{} at lexeme {} is not beyond error #{w} at lexeme {}", w + 1, e2.at, e1.at), detail(summary()));
                    continue;
                }
                let gap = e2.at.saturating_sub(resume);
                out.min("gap_between_errors", gap as u64);
                if gap < parse_at_least() && e2.at < n {
                    out.violate("errors-too-close", &tags, format!("error #{} at lexeme {} lies only {gap} lexeme(s) beyond where parsing resumed ({resume}) after error #{w}", w + 1, e2.at), detail(summary()));
                }
            }
            // value <=> every error has a repair
            let all_repaired = errs.iter().all(|e| !e.repairs.is_empty());
            if rec.tree.is_some() != all_repaired {
                out.violate("value-vs-repairs", &[], format!("value returned = {}, every error has a repair = {}", rec.tree.is_some(), all_repaired), detail(summary()));
            }
            if errs.is_empty() {
                if rec.tree.is_none() {
                    out.violate("no-value-no-error", &[], "neither a value nor an error was returned".into(), detail(summary()));
                } else {
                    out.count("accepted_unchanged", 1);
                    if !ea.member(&inp) {
                        out.violate("non-sentence-accepted-silently", &[], "a value with an empty error list was returned but the input is not a sentence".into(), detail(summary()));
                    }
                    let mut lv = vec![];
                    rec.tree.as_ref().unwrap().leaves(&mut lv);
                    let want: Vec<Tree> = si.lexemes.iter().map(|l| term_of(*l)).collect();
                    if lv.len() != want.len() || lv.iter().zip(want.iter()).any(|(a, c)| **a != *c) {
                        out.violate("leaves-differ", &[], "value with empty error list: the tree's leaves are not the input lexemes".into(), detail(summary()));
                    }
                }
            }
            if k == 0 && idx % 41 == 0 && out.sample.is_none() {
                out.sample = Some(json!({"grammar": b.src, "family": rc.ag.family, "budget": bname, "input_len": n, "errors_at": errs.iter().map(|e| e.at).collect::<Vec<_>>(), "repairs_per_error": errs.iter().map(|e| e.repairs.len()).collect::<Vec<_>>(), "value": rec.tree.is_some(), "budget_ran_out": rec.timeouts > 0}));
            }
            }
        }
        out
    }
}

/// Repairs whose cost lands on and just past the u16 cost ceiling: a sentence followed by k junk lexemes
/// that nothing but k deletions at cost 255 can repair (k x 255 = 65535 for k = 257).
fn cost_ceiling_case(seed: u64, idx: u64) -> CaseOut {
    let mut out = CaseOut::new();
    let mut rng = Rng::derive(seed, "C07-ceiling", idx, 0);
    let mut g = AG::new(AKind::OriginalGeneric, "cost-ceiling");
    let s_ = g.rule("S");
    let a = g.tok("a");
    let bt = g.tok("b");
    let junk = g.tok("g");
    let sentence: Vec<usize> = match rng.below(3) {
        0 => {
            g.add_prod(s_, vec![ASym::T(a)]);
            vec![a]
        }
        1 => {
            g.add_prod(s_, vec![ASym::T(a), ASym::T(bt)]);
            vec![a, bt]
        }
        _ => {
            g.add_prod(s_, vec![ASym::T(a), ASym::R(s_)]);
            g.add_prod(s_, vec![ASym::T(bt)]);
            vec![a, a, bt]
        }
    };
    // the junk token appears in no production: declare it
    let b = match build_grm_src(&g, format!("%token b g\n{}", g.render())) {
        Ok(b) => b,
        Err(e) => {
            out.violate("grammar-build-failed", &["harness"], e, json!(null));
            return out;
        }
    };
    let Ok(Ok((_, st))) = guarded(|| b.table()) else { return out };
    out.count("cost_ceiling_cases", 1);
    let junk_cost = *rng.pick(&[255u8, 255, 255, 85, 51, 15]);
    let cost = |t: TIdx<u32>| -> u8 { if t == b.tok[junk] { junk_cost } else { 255 } };
    let exact = 65535usize / junk_cost as usize;
    for k in [exact - 2, exact - 1, exact, exact + 1, exact + 2, exact + 3] {
        if k > 4500 {
            continue;
        }
        let mut inp = sentence.clone();
        inp.extend(std::iter::repeat(junk).take(k));
        let toks: Vec<TIdx<u32>> = inp.iter().map(|t| b.tok[*t]).collect();
        let si = syn_input(&toks, &mut rng, true);
        out.evals += 1;
        out.count("parses", 1);
        out.count("parses_at_the_cost_ceiling", 1);
        let detail = || json!({"grammar": b.src, "input": format!("{:?} followed by {k} x 'g'", sentence.iter().map(|t| g.tokens[*t].name.clone()).collect::<Vec<_>>()), "junk_cost": junk_cost});
        trace(|| format!("cost ceiling: {k} junk lexemes of cost {junk_cost}"));
        let rec = match record_parse(&b, &st, &si, &cost, Budget::Steps(2_000_000)) {
            Ok(r) => r,
            Err(p) => {
                out.violate("panic", &["parse", "cost-ceiling"], format!("parse with recovery panicked instead of returning: {p}"), detail());
                continue;
            }
        };
        for m in &rec.malformed {
            out.violate("malformed-result", &[], m.clone(), detail());
        }
        let errs = &rec.errors;
        if errs.is_empty() {
            out.violate("non-sentence-accepted-silently", &["cost-ceiling"], "no error reported for an input with junk lexemes".into(), detail());
        }
        let all_repaired = errs.iter().all(|e| !e.repairs.is_empty());
        if rec.tree.is_some() != all_repaired {
            out.violate("value-vs-repairs", &["cost-ceiling"], format!("value returned = {}, every error has a repair = {}", rec.tree.is_some(), all_repaired), detail());
        }
        if errs.len() > 1 && errs.windows(2).any(|w| w[1].at <= w[0].at) {
            out.violate("errors-not-increasing", &["cost-ceiling"], format!("errors at {:?}", errs.iter().map(|e| e.at).collect::<Vec<_>>()), detail());
        }
        if all_repaired && !errs.is_empty() {
            out.count("ceiling_inputs_repaired", 1);
        } else {
            out.count("ceiling_inputs_given_up", 1);
        }
        out.nontrivial(hash_str(&format!("ceiling{k}{junk_cost}{:?}", sentence)));
    }
    out
}

/// One success node standing for 2^K explicit repair sequences: S: A^K 'end'; A: 'p' | 'q'; with
/// (almost) all the A's missing. Under the production wall-clock budget the parse must still come back
/// (with or without repairs): the budget has to be honoured while merged sequences are expanded, too.
fn wide_merge_case(seed: u64, idx: u64) -> CaseOut {
    let mut out = CaseOut::new();
    let mut rng = Rng::derive(seed, "C07-wide", idx, 0);
    let k = rng.range(15, 20);
    let mut g = AG::new(AKind::OriginalGeneric, "wide-merge");
    let s_ = g.rule("S");
    let a_ = g.rule("A");
    let p = g.tok("p");
    let q = g.tok("q");
    let end = g.tok("end");
    let mut syms: Vec<ASym> = (0..k).map(|_| ASym::R(a_)).collect();
    syms.push(ASym::T(end));
    g.add_prod(s_, syms);
    g.add_prod(a_, vec![ASym::T(p)]);
    g.add_prod(a_, vec![ASym::T(q)]);
    let b = match build_grm(&g) {
        Ok(b) => b,
        Err(e) => {
            out.violate("grammar-build-failed", &["harness"], e, json!(null));
            return out;
        }
    };
    let Ok(Ok((_, st))) = guarded(|| b.table()) else { return out };
    out.count("wide_merge_cases", 1);
    let cost = |_: TIdx<u32>| -> u8 { 1 };
    for given in [0usize, 1, 2] {
        let mut inp: Vec<usize> = (0..given).map(|i| if i % 2 == 0 { p } else { q }).collect();
        inp.push(end);
        let toks: Vec<TIdx<u32>> = inp.iter().map(|t| b.tok[*t]).collect();
        let si = syn_input(&toks, &mut rng, true);
        out.evals += 1;
        out.count("parses", 1);
        out.count("parses_with_exponentially_many_merged_sequences", 1);
        let detail = || json!({"grammar": b.src, "input": inp.iter().map(|t| g.tokens[*t].name.clone()).collect::<Vec<_>>(), "budget": "production-500ms", "k": k});
        trace(|| format!("wide merge: K={k}, {given} of the A's present, production budget"));
        let rec = match record_parse(&b, &st, &si, &cost, Budget::Production) {
            Ok(r) => r,
            Err(p) => {
                out.violate("panic", &["parse", "wide-merge"], format!("parse with recovery panicked instead of returning: {p}"), detail());
                continue;
            }
        };
        out.max("wide_merge_parse_wall_ms", rec.wall_ms as u64);
        for m in &rec.malformed {
            out.violate("malformed-result", &[], m.clone(), detail());
        }
        let errs = &rec.errors;
        if errs.is_empty() {
            out.violate("non-sentence-accepted-silently", &["wide-merge"], "no error reported for an input with missing lexemes".into(), detail());
        }
        let all_repaired = errs.iter().all(|e| !e.repairs.is_empty());
        if rec.tree.is_some() != all_repaired {
            out.violate("value-vs-repairs", &["wide-merge"], format!("value returned = {}, every error has a repair = {}", rec.tree.is_some(), all_repaired), detail());
        }
        out.nontrivial(hash_str(&format!("wide{k}{given}")));
    }
    out
}

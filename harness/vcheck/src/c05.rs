//! C05 — every reported repair sequence repairs; parsing continues as if it were applied.
//! Oracle: replay model on an independent LR driver (rec::replay_model).

use crate::frame::*;
use crate::lrx::*;
use crate::rec::*;
use crate::rng::{hash_str, Rng};
use cfgrammar::TIdx;
use serde_json::json;

pub struct C05;

impl Check for C05 {
    fn id(&self) -> &'static str {
        "C05"
    }
    fn ncases(&self, tier: Tier) -> u64 {
        tier.sz(3000, 30000)
    }
    fn rule(&self) -> &'static str {
        "per case one generated grammar (all families incl. conflict-resolved tables; cyclic / reduce-looping grammars excluded), a token-cost table (all 1 / 1-3 / some 200-255), a random %avoid_insert set, and 6 (quick) or 8 (thorough) inputs with 1-5 independent token-level errors; parsed with CPCT+ under a logical step budget; the replay model (independent LR driver) checks every error's position and state, replays EVERY reported sequence (must shift what it inserts/shifts, delete the actual next lexemes, and then parse >= 3 more lexemes or accept), applies the first sequence (inserted lexemes zero-length, faulty, at the next real lexeme) and requires the returned tree to equal the model's tree node for node. Non-trivial = parse with an error that has >= 2 sequences, or >= 2 errors; distinct by (grammar, input, costs)."
    }
    fn assumptions(&self) -> Vec<&'static str> {
        vec!["recovery runs under a logical step budget set through the lrpar verification hook (huge wall budget), so an empty repair list is never a scheduling artefact; parses where the budget ran out are still replayed"]
    }
    fn floor(&self, tier: Tier) -> u64 {
        tier.sz(2000, 20000)
    }
    fn required_counters(&self, _t: Tier) -> Vec<&'static str> {
        vec!["parses_with_errors", "errors", "sequences_validated", "errors_with_2plus_sequences", "inserted_leaves_checked", "parses_with_2plus_errors", "trees_compared"]
    }
    fn case_cap_s(&self, _t: Tier) -> u64 {
        120
    }
    fn run_case(&self, seed: u64, idx: u64, tier: Tier) -> CaseOut {
        let mut out = CaseOut::new();
        let mut rng = Rng::derive(seed, "C05", idx, 0);
        let Some(rc) = gen_rec_case(&mut rng, false) else {
            out.count("no_suitable_grammar", 1);
            return out;
        };
        let costs = rc.costs.clone();
        let b = &rc.b;
        let cost = |t: TIdx<u32>| -> u8 { b.tidx_to_ag[usize::from(t)].map(|a| costs[a]).unwrap_or(1) };
        let gh = hash_str(&rc.ag.normal_form());
        for k in 0..tier.sz(6, 8) {
            let nerr = rng.range(1, 5);
            let inp = gen_bad_input(&mut rng, &rc.ag, tier.sz(16, 30) as usize, nerr);
            let toks: Vec<TIdx<u32>> = inp.iter().map(|t| b.tok[*t]).collect();
            let si = syn_input(&toks, &mut rng, true);
            out.evals += 1;
            let detail = |x: String| json!({"grammar": b.src, "input": inp.iter().map(|t| rc.ag.tokens[*t].name.clone()).collect::<Vec<_>>(), "text": si.text, "token_costs": rc.ag.tokens.iter().zip(costs.iter()).map(|(t, c)| json!([t.name, c])).collect::<Vec<_>>(), "obs": x});
            let rec = match record_parse(b, &rc.st, &si, &cost, Budget::Steps(tier.sz(8_000, 30_000))) {
                Ok(r) => r,
                Err(p) => {
                    out.violate("panic", &["parse"], format!("parse with recovery panicked: {p}"), detail(String::new()));
                    continue;
                }
            };
            if rec.errors.is_empty() {
                out.count("parses_without_errors", 1);
            } else {
                out.count("parses_with_errors", 1);
            }
            if rec.timeouts > 0 {
                out.count("parses_where_budget_ran_out", 1);
            }
            let (viol, stats, _ctx) = replay_model(b, &rc.st, &si, &toks, &rec);
            out.count("errors", stats.errors);
            out.count("sequences_validated", stats.sequences_validated);
            out.count("errors_with_2plus_sequences", stats.multi_seq_errors);
            out.count("inserted_leaves_checked", stats.inserted_leaves);
            if rec.errors.len() >= 2 {
                out.count("parses_with_2plus_errors", 1);
            }
            if rec.tree.is_some() {
                out.count("trees_compared", 1);
            }
            if stats.multi_seq_errors > 0 || rec.errors.len() >= 2 {
                out.nontrivial(gh ^ hash_str(&format!("{inp:?}{costs:?}")));
            }
            let conflict_table = rc.st.conflicts().is_some() || !rc.ag.precs.is_empty();
            for (kind, msg, mut tags) in viol {
                if conflict_table {
                    tags.push("table_has_resolved_conflicts");
                }
                out.violate(&kind, &tags, msg, detail(format!("errors reported: {:?}", rec.errors.iter().map(|e| (e.at, e.repairs.iter().map(|s| pp_seq(&b.grm, s)).collect::<Vec<_>>())).collect::<Vec<_>>())));
            }
            if k == 0 && idx % 53 == 0 {
                out.sample = Some(json!({"grammar": b.src, "family": rc.ag.family, "cost_kind": rc.cost_kind, "input": inp.iter().map(|t| rc.ag.tokens[*t].name.clone()).collect::<Vec<_>>(),
                    "errors": rec.errors.iter().map(|e| json!({"at_lexeme": e.at, "sequences": e.repairs.iter().map(|s| pp_seq(&b.grm, s)).collect::<Vec<_>>()})).collect::<Vec<_>>(), "value_returned": rec.tree.is_some()}));
            }
        }
        out
    }
}

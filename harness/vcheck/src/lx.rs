//! Abstract lexer specifications: regex AST (with a `.l` rendering, a canonical rendering and a
//! string sampler), abstract rules / start states / flags, a renderer to `.l` text that records
//! the byte ranges of what it prints, and the reference lexer.

use crate::rng::Rng;
use regex::{Regex, RegexBuilder};

#[derive(Clone, Debug)]
pub enum Re {
    Lit(String),
    /// character class: list of (lo, hi) ranges, negated?
    Class(Vec<(char, char)>, bool),
    Dot,
    Alt(Vec<Re>),
    Cat(Vec<Re>),
    Star(Box<Re>),
    Plus(Box<Re>),
    Opt(Box<Re>),
    Repeat(Box<Re>, u32, u32),
    /// end-of-line/text assertion `$`
    Eol,
}

const LIT_POOL: [&str; 26] = ["a", "b", "c", "ab", "x", "y", "if", "0", "1", "+", "-", "*", "(", ")", ".", "é", "♠", "\"", "'", "<", ">", " ", "%", "/", "e", "q"];

pub fn gen_re(rng: &mut Rng, depth: usize) -> Re {
    let leaf = depth == 0 || rng.chance(2, 5);
    if leaf {
        match rng.weighted(&[60, 25, 8, 7]) {
            0 => Re::Lit((*rng.pick(&LIT_POOL[..])).to_string()),
            1 => {
                let opts: [(Vec<(char, char)>, bool); 6] = [
                    (vec![('a', 'c')], false),
                    (vec![('0', '9')], false),
                    (vec![('a', 'z')], false),
                    (vec![('a', 'a'), ('x', 'x'), ('é', 'é')], false),
                    (vec![('a', 'b')], true),
                    (vec![(' ', ' '), ('\t', '\t'), ('\n', '\n')], false),
                ];
                let (r, n) = rng.pick(&opts[..]).clone();
                Re::Class(r, n)
            }
            2 => Re::Dot,
            _ => Re::Lit("a".into()),
        }
    } else {
        match rng.weighted(&[25, 30, 12, 12, 10, 8, 3]) {
            0 => Re::Alt((0..rng.range(2, 3)).map(|_| gen_re(rng, depth - 1)).collect()),
            1 => Re::Cat((0..rng.range(2, 3)).map(|_| gen_re(rng, depth - 1)).collect()),
            2 => Re::Star(Box::new(gen_re(rng, depth - 1))),
            3 => Re::Plus(Box::new(gen_re(rng, depth - 1))),
            4 => Re::Opt(Box::new(gen_re(rng, depth - 1))),
            5 => {
                let m = rng.below(3) as u32;
                Re::Repeat(Box::new(gen_re(rng, depth - 1)), m, m + rng.below(3) as u32)
            }
            _ => Re::Cat(vec![gen_re(rng, depth - 1), Re::Eol]),
        }
    }
}

fn is_lex_escape_literal(c: char, next: Option<char>) -> bool {
    // mirrors the documented table: \x \u \U followed by a hex digit, digits, afnrtv\, pP, dDsSwW, A z (and b)
    match c {
        // whatever follows in the rendered regex may turn these into a hex/unicode escape: never escape them
        'x' | 'u' | 'U' => { let _ = next; true }
        '0'..='9' => true,
        'a' | 'f' | 'n' | 'r' | 't' | 'v' | '\\' | 'p' | 'P' | 'd' | 'D' | 's' | 'S' | 'w' | 'W' | 'A' | 'z' | 'b' | 'B' => true,
        _ => false,
    }
}

impl Re {
    /// can this regex match the empty string?
    pub fn nullable(&self) -> bool {
        match self {
            Re::Lit(s) => s.is_empty(),
            Re::Class(..) | Re::Dot => false,
            Re::Alt(v) => v.iter().any(|x| x.nullable()),
            Re::Cat(v) => v.iter().all(|x| x.nullable()),
            Re::Star(_) | Re::Opt(_) | Re::Eol => true,
            Re::Plus(x) => x.nullable(),
            Re::Repeat(x, m, _) => *m == 0 || x.nullable(),
        }
    }
    fn prec(&self) -> u8 {
        match self {
            Re::Alt(_) => 0,
            Re::Cat(_) => 1,
            Re::Lit(s) if s.chars().count() > 1 => 1,
            _ => 2,
        }
    }
    fn wrap(&self, s: String, need: u8) -> String {
        if self.prec() < need {
            format!("(?:{s})")
        } else {
            s
        }
    }
    /// Render. `lexy` = as written in a `.l` file: with gratuitous lex-style escapes (`\c` for a
    /// character that is special neither to lex nor to the regex engine). `escapes` counts them.
    pub fn render(&self, lexy: bool, rng: &mut Rng, escapes: &mut u32) -> String {
        match self {
            Re::Lit(s) => {
                let cs: Vec<char> = s.chars().collect();
                let mut out = String::new();
                for (i, c) in cs.iter().enumerate() {
                    if regex_syntax::is_meta_character(*c) {
                        out.push('\\');
                        out.push(*c);
                    } else if lexy && rng.chance(1, 3) && !is_lex_escape_literal(*c, cs.get(i + 1).cloned()) && !c.is_ascii_alphanumeric() {
                        *escapes += 1;
                        out.push('\\');
                        out.push(*c);
                    } else if lexy && rng.chance(1, 8) && c.is_ascii_alphabetic() && !is_lex_escape_literal(*c, cs.get(i + 1).cloned()) {
                        *escapes += 1;
                        out.push('\\');
                        out.push(*c);
                    } else if *c == ' ' && !lexy {
                        // canonical form: a literal space (the reference regex is never built with ignore_whitespace)
                        out.push(' ');
                    } else {
                        out.push(*c);
                    }
                }
                out
            }
            Re::Class(rs, neg) => {
                let mut s = String::from("[");
                if *neg {
                    s.push('^');
                }
                for (a, b) in rs {
                    let esc = |c: char| match c {
                        '\t' => "\\t".to_string(),
                        '\n' => "\\n".to_string(),
                        ']' | '\\' | '^' | '-' => format!("\\{c}"),
                        _ => c.to_string(),
                    };
                    if a == b {
                        s.push_str(&esc(*a));
                    } else {
                        s.push_str(&format!("{}-{}", esc(*a), esc(*b)));
                    }
                }
                s.push(']');
                s
            }
            Re::Dot => ".".into(),
            Re::Eol => "$".into(),
            Re::Alt(v) => v.iter().map(|x| x.wrap(x.render(lexy, rng, escapes), 1)).collect::<Vec<_>>().join("|"),
            Re::Cat(v) => v.iter().map(|x| x.wrap(x.render(lexy, rng, escapes), 1)).collect::<Vec<_>>().join(""),
            Re::Star(x) => format!("{}*", x.wrap(x.render(lexy, rng, escapes), 2)),
            Re::Plus(x) => format!("{}+", x.wrap(x.render(lexy, rng, escapes), 2)),
            Re::Opt(x) => format!("{}?", x.wrap(x.render(lexy, rng, escapes), 2)),
            Re::Repeat(x, m, n) => format!("{}{{{},{}}}", x.wrap(x.render(lexy, rng, escapes), 2), m, n),
        }
    }
    /// A string that matches (modulo flags such as swap_greed which do not change the language).
    pub fn sample(&self, rng: &mut Rng, out: &mut String) {
        match self {
            Re::Lit(s) => out.push_str(s),
            Re::Class(rs, neg) => {
                if *neg {
                    out.push(*rng.pick(&['x', 'z', '1', 'é']));
                } else {
                    let (a, b) = rng.pick(&rs[..]);
                    let span = (*b as u32 - *a as u32) as usize;
                    out.push(char::from_u32(*a as u32 + rng.below(span + 1) as u32).unwrap_or(*a));
                }
            }
            Re::Dot => out.push(*rng.pick(&['a', 'q', '7', '♠', ' '])),
            Re::Eol => {}
            Re::Alt(v) => rng.pick(&v[..]).sample(rng, out),
            Re::Cat(v) => {
                for x in v {
                    x.sample(rng, out);
                }
            }
            Re::Star(x) => {
                for _ in 0..rng.below(3) {
                    x.sample(rng, out);
                }
            }
            Re::Plus(x) => {
                for _ in 0..rng.range(1, 3) {
                    x.sample(rng, out);
                }
            }
            Re::Opt(x) => {
                if rng.chance(1, 2) {
                    x.sample(rng, out);
                }
            }
            Re::Repeat(x, m, n) => {
                for _ in 0..rng.range(*m as usize, *n as usize) {
                    x.sample(rng, out);
                }
            }
        }
    }
}

#[derive(Clone, Copy, Debug, PartialEq, Eq)]
pub enum Op {
    Replace,
    Push,
    Pop,
}

#[derive(Clone, Debug)]
pub struct ALRule {
    pub name: Option<String>,
    pub re: Re,
    /// indices into `states` (0 = INITIAL); empty = unqualified
    pub states: Vec<usize>,
    pub target: Option<(usize, Op)>,
}

#[derive(Clone, Debug, Default)]
pub struct AFlags {
    pub dot_matches_new_line: Option<bool>,
    pub multi_line: Option<bool>,
    pub octal: Option<bool>,
    pub posix_escapes: Option<bool>,
    pub allow_wholeline_comments: Option<bool>,
    pub case_insensitive: Option<bool>,
    pub swap_greed: Option<bool>,
    pub unicode: Option<bool>,
    pub size_limit: Option<usize>,
    pub dfa_size_limit: Option<usize>,
    pub nest_limit: Option<u32>,
}

impl AFlags {
    pub fn to_lexflags(&self) -> lrlex::LexFlags {
        let mut f = lrlex::UNSPECIFIED_LEX_FLAGS;
        f.dot_matches_new_line = self.dot_matches_new_line;
        f.multi_line = self.multi_line;
        f.octal = self.octal;
        f.posix_escapes = self.posix_escapes;
        f.allow_wholeline_comments = self.allow_wholeline_comments;
        f.case_insensitive = self.case_insensitive;
        f.swap_greed = self.swap_greed;
        f.unicode = self.unicode;
        f.size_limit = self.size_limit;
        f.dfa_size_limit = self.dfa_size_limit;
        f.nest_limit = self.nest_limit;
        f
    }
    pub fn header_entries(&self) -> Vec<String> {
        let mut v = vec![];
        let mut add = |n: &str, x: Option<bool>| {
            if let Some(b) = x {
                v.push(format!("{}{}", if b { "" } else { "!" }, n));
            }
        };
        add("dot_matches_new_line", self.dot_matches_new_line);
        add("multi_line", self.multi_line);
        add("octal", self.octal);
        add("posix_escapes", self.posix_escapes);
        add("allow_wholeline_comments", self.allow_wholeline_comments);
        add("case_insensitive", self.case_insensitive);
        add("swap_greed", self.swap_greed);
        add("unicode", self.unicode);
        if let Some(n) = self.size_limit {
            v.push(format!("size_limit: {n}"));
        }
        if let Some(n) = self.dfa_size_limit {
            v.push(format!("dfa_size_limit: {n}"));
        }
        if let Some(n) = self.nest_limit {
            v.push(format!("nest_limit: {n}"));
        }
        v
    }
}

#[derive(Clone, Debug)]
pub struct ALex {
    /// (name, exclusive); index 0 is INITIAL (implicit, inclusive)
    pub states: Vec<(String, bool)>,
    pub rules: Vec<ALRule>,
    pub flags: AFlags,
}

/// What the renderer printed where.
#[derive(Clone, Debug, Default)]
pub struct Rendered {
    pub text: String,
    /// byte range of each rule's name (None for skip rules)
    pub rule_name_spans: Vec<Option<(usize, usize)>>,
    /// byte range of each declared start state's name (index 0 = INITIAL has none)
    pub state_name_spans: Vec<Option<(usize, usize)>>,
    /// per rule: the regex text as written
    pub rule_re_src: Vec<String>,
    pub escapes: u32,
    pub has_header: bool,
}

pub fn gen_alex(rng: &mut Rng) -> ALex {
    let mut states = vec![("INITIAL".to_string(), false)];
    let ns = rng.below(4);
    let names = ["STR", "CMT", "str", "Q1", "a.b", "X_y"];
    let mut pool: Vec<&str> = names.to_vec();
    rng.shuffle(&mut pool);
    for n in pool.iter().take(ns) {
        states.push((n.to_string(), rng.chance(1, 2)));
    }
    let nr = rng.range(1, 7);
    let mut rules = vec![];
    let mut used_names: Vec<String> = vec![];
    for i in 0..nr {
        let re = loop {
            let r = gen_re(rng, 2);
            if !r.nullable() || rng.chance(1, 10) {
                break r;
            }
        };
        let name = if rng.chance(1, 5) {
            None
        } else {
            let n = loop {
                let cand = format!("{}{}", *rng.pick(&["T", "ID", "kw", "t_", "é", "A-B"]), i);
                if !used_names.contains(&cand) {
                    break cand;
                }
            };
            used_names.push(n.clone());
            Some(n)
        };
        let rstates = if states.len() > 1 && rng.chance(2, 5) {
            let k = rng.range(1, 2.min(states.len()));
            let mut idx: Vec<usize> = (0..states.len()).collect();
            rng.shuffle(&mut idx);
            idx.truncate(k);
            idx
        } else {
            vec![]
        };
        let target = if states.len() > 1 && rng.chance(2, 5) {
            Some((rng.below(states.len()), *rng.pick(&[Op::Replace, Op::Push, Op::Push, Op::Pop])))
        } else {
            None
        };
        rules.push(ALRule { name, re, states: rstates, target });
    }
    // overlapping rules: keyword vs identifier, prefixes, equal-length ties
    if rng.chance(1, 2) {
        rules.push(ALRule { name: Some("KWIF".into()), re: Re::Lit("if".into()), states: vec![], target: None });
        rules.push(ALRule { name: Some("IDENT".into()), re: Re::Plus(Box::new(Re::Class(vec![('a', 'z')], false))), states: vec![], target: None });
        if rng.chance(1, 2) {
            let n = rules.len();
            rules.swap(n - 1, n - 2);
        }
    }
    if rng.chance(1, 2) {
        rules.push(ALRule { name: None, re: Re::Plus(Box::new(Re::Class(vec![(' ', ' '), ('\t', '\t'), ('\n', '\n')], false))), states: vec![], target: None });
    }
    let mut flags = AFlags::default();
    if rng.chance(1, 2) {
        let pick = |rng: &mut Rng| if rng.chance(1, 2) { Some(rng.chance(1, 2)) } else { None };
        flags.dot_matches_new_line = pick(rng);
        flags.multi_line = pick(rng);
        flags.case_insensitive = pick(rng);
        flags.swap_greed = if rng.chance(1, 4) { Some(true) } else { None };
        flags.octal = pick(rng);
        flags.posix_escapes = pick(rng);
        flags.allow_wholeline_comments = pick(rng);
    }
    if rng.chance(1, 4) {
        flags.size_limit = *rng.pick(&[None, Some(10 * 1024 * 1024), Some(64), Some(4096)]);
        flags.dfa_size_limit = *rng.pick(&[None, Some(64), Some(10 * 1024 * 1024)]);
        flags.nest_limit = *rng.pick(&[None, Some(2), Some(100)]);
    }
    ALex { states, rules, flags }
}

pub struct RenderOpts {
    pub header: bool,
    pub crlf: bool,
    pub comments: bool,
    pub lexy_escapes: bool,
}

pub fn render_alex(al: &ALex, rng: &mut Rng, o: &RenderOpts) -> Rendered {
    let mut r = Rendered::default();
    let nl = if o.crlf { "\r\n" } else { "\n" };
    let mut t = String::new();
    if o.header {
        r.has_header = true;
        let ents = al.flags.header_entries();
        if rng.chance(1, 2) {
            t.push_str(&format!("%grmtools{{{}}}{nl}", ents.join(", ")));
        } else {
            t.push_str(&format!("%grmtools {{{nl}"));
            for e in &ents {
                t.push_str(&format!("    {e},{nl}"));
            }
            t.push_str(&format!("}}{nl}"));
        }
    }
    r.state_name_spans.push(None);
    let wl = o.comments && al.flags.allow_wholeline_comments == Some(true);
    // one declaration line per state, or several states of one kind on one line; one or several
    // blanks / tabs between the keyword and the names and between names (aligned columns)
    let sts: Vec<&(String, bool)> = al.states.iter().skip(1).collect();
    let mut si = 0;
    while si < sts.len() {
        let (_, excl) = sts[si];
        if wl && rng.chance(1, 3) {
            t.push_str(&format!("// a comment{nl}"));
        }
        let kw = match (*excl, rng.below(3)) {
            (true, 0) => "%x",
            (true, 1) => "%X",
            (true, _) => "%xstate",
            (false, 0) => "%s",
            (false, 1) => "%S",
            (false, _) => "%start",
        };
        t.push_str(kw);
        let mut first = true;
        loop {
            // lrlex splits the names at every single white-space character, so two blanks between two
            // names are refused (empty name); several are accepted between the keyword and the first name
            let sep = match if first { rng.below(6) } else { 4 + rng.below(2) * 0 + if rng.chance(1, 3) { 6 } else { 0 } } {
                0 => "\t",
                1 => "   ",
                2 => " \t ",
                3 => "\t\t",
                10 => "\t",
                _ => " ",
            };
            first = false;
            t.push_str(sep);
            let st = t.len();
            t.push_str(&sts[si].0);
            r.state_name_spans.push(Some((st, t.len())));
            si += 1;
            if si < sts.len() && sts[si].1 == *excl && rng.chance(1, 2) {
                continue;
            }
            break;
        }
        if rng.chance(1, 6) {
            t.push_str(" ");
        }
        t.push_str(nl);
    }
    t.push_str("%%");
    t.push_str(nl);
    for rule in &al.rules {
        if wl && rng.chance(1, 4) {
            t.push_str(&format!("// comment 'x' <y>{nl}"));
        }
        if !rule.states.is_empty() {
            t.push('<');
            t.push_str(&rule.states.iter().map(|s| al.states[*s].0.clone()).collect::<Vec<_>>().join(if rng.chance(1, 3) { ", " } else { "," }));
            t.push('>');
        }
        let mut esc = 0;
        let mut re_src = rule.re.render(o.lexy_escapes, rng, &mut esc);
        // protect what lex itself would interpret: leading '<' (state prefix), leading blank,
        // trailing blank, a leading "%%", a leading "//" under whole-line comments
        if rule.states.is_empty() && re_src.starts_with('<') {
            re_src = format!("\\{re_src}");
            esc += 1;
        }
        if rule.states.is_empty() && (re_src.starts_with(' ') || re_src.starts_with('\t')) {
            re_src = format!("\\{re_src}");
            esc += 1;
        }
        if re_src.ends_with(' ') && !re_src.ends_with("\\ ") {
            let l = re_src.len();
            re_src.insert(l - 1, '\\');
            esc += 1;
        }
        if rule.states.is_empty() && (re_src.starts_with("%%") || re_src.starts_with("//")) {
            re_src = format!("(?:{re_src})");
        }
        r.escapes += esc;
        t.push_str(&re_src);
        r.rule_re_src.push(re_src);
        t.push_str(if rng.chance(1, 4) { "  " } else { " " });
        if let Some((s, op)) = &rule.target {
            t.push('<');
            match op {
                Op::Push => t.push('+'),
                Op::Pop => t.push('-'),
                Op::Replace => {}
            }
            t.push_str(&al.states[*s].0);
            t.push('>');
        }
        match &rule.name {
            None => {
                r.rule_name_spans.push(None);
                t.push_str(*rng.pick(&[";", "\"\"", "''"]));
            }
            Some(n) => {
                let q = if rng.chance(1, 2) { '"' } else { '\'' };
                t.push(q);
                let st = t.len();
                t.push_str(n);
                r.rule_name_spans.push(Some((st, t.len())));
                t.push(q);
            }
        }
        if rng.chance(1, 5) {
            t.push(' ');
        }
        t.push_str(nl);
    }
    if rng.chance(1, 6) {
        t.push_str("%%");
        t.push_str(nl);
    }
    r.text = t;
    r
}

// ---------------------------------------------------------------------------------------------
// reference lexer

pub struct RefRule {
    pub tok: Option<u32>,
    pub named: bool,
    pub re: Regex,
    pub states: Vec<usize>,
    pub target: Option<(usize, Op)>,
}

pub struct RefLexer {
    pub rules: Vec<RefRule>,
    /// exclusive flag per state (index 0 = INITIAL)
    pub exclusive: Vec<bool>,
}

#[derive(Debug, Default, Clone)]
pub struct LexStats {
    pub positions: u64,
    pub ties: u64,
    pub competing_lengths: u64,
    pub pushes: u64,
    pub pops: u64,
    pub replaces: u64,
    pub max_depth: u64,
    pub skipped: u64,
}

/// effective flags after merging grmtools' defaults
pub fn build_ref_regex(src: &str, f: &AFlags) -> Result<Regex, regex::Error> {
    let mut b = RegexBuilder::new(&format!("\\A(?:{src})"));
    b.octal(f.octal.unwrap_or(true)).multi_line(f.multi_line.unwrap_or(true)).dot_matches_new_line(f.dot_matches_new_line.unwrap_or(true));
    if let Some(x) = f.case_insensitive {
        b.case_insensitive(x);
    }
    if let Some(x) = f.swap_greed {
        b.swap_greed(x);
    }
    if let Some(x) = f.unicode {
        b.unicode(x);
    }
    if let Some(x) = f.size_limit {
        b.size_limit(x);
    }
    if let Some(x) = f.dfa_size_limit {
        b.dfa_size_limit(x);
    }
    if let Some(x) = f.nest_limit {
        b.nest_limit(x);
    }
    b.build()
}

impl RefLexer {
    pub fn new(al: &ALex, rng: &mut Rng, tok_ids: &[Option<u32>]) -> Result<RefLexer, String> {
        let mut rules = vec![];
        for (i, r) in al.rules.iter().enumerate() {
            let mut e = 0;
            let src = r.re.render(false, rng, &mut e);
            let re = build_ref_regex(&src, &al.flags).map_err(|e| format!("reference regex {src:?} does not compile: {e}"))?;
            rules.push(RefRule { tok: tok_ids[i], named: r.name.is_some(), re, states: r.states.clone(), target: r.target });
        }
        Ok(RefLexer { rules, exclusive: al.states.iter().map(|s| s.1).collect() })
    }

    /// Returns (lexemes as (tok, start, len), error offset if any)
    pub fn lex(&self, s: &str, stats: &mut LexStats) -> (Vec<(u32, usize, usize)>, Option<usize>) {
        let mut out = vec![];
        let mut pos = 0;
        let mut stack: Vec<usize> = vec![0];
        while pos < s.len() {
            let cur = *stack.last().unwrap();
            stats.positions += 1;
            let mut best: Option<(usize, usize)> = None;
            let mut lens: Vec<usize> = vec![];
            for (i, r) in self.rules.iter().enumerate() {
                let active = if r.states.is_empty() { !self.exclusive[cur] } else { r.states.contains(&cur) };
                if !active {
                    continue;
                }
                if let Some(m) = r.re.find(&s[pos..]) {
                    let l = m.end();
                    if l > 0 {
                        lens.push(l);
                        if best.map_or(true, |(_, bl)| l > bl) {
                            best = Some((i, l));
                        }
                    }
                }
            }
            let Some((ri, l)) = best else {
                return (out, Some(pos));
            };
            if lens.iter().filter(|x| **x == l).count() > 1 {
                stats.ties += 1;
            }
            if lens.iter().any(|x| *x != l) {
                stats.competing_lengths += 1;
            }
            let r = &self.rules[ri];
            if r.named {
                match r.tok {
                    Some(t) => out.push((t, pos, l)),
                    None => return (out, Some(pos)),
                }
            } else {
                stats.skipped += 1;
            }
            if let Some((st, op)) = r.target {
                match op {
                    Op::Push => {
                        stack.push(st);
                        stats.pushes += 1;
                    }
                    Op::Pop => {
                        stack.pop();
                        if stack.is_empty() {
                            stack.push(0);
                        }
                        stats.pops += 1;
                    }
                    Op::Replace => {
                        stack.clear();
                        stack.push(st);
                        stats.replaces += 1;
                    }
                }
                stats.max_depth = stats.max_depth.max(stack.len() as u64);
            }
            pos += l;
        }
        (out, None)
    }
}

/// Input strings for a spec: concatenations of samples of its rules plus occasional noise.
pub fn gen_lex_input(al: &ALex, rng: &mut Rng, pieces: usize) -> String {
    let mut s = String::new();
    for _ in 0..pieces {
        if rng.chance(1, 12) {
            s.push(*rng.pick(&['#', '~', 'Z', '\n', 'é']));
        } else {
            let r = rng.pick(&al.rules[..]);
            r.re.sample(rng, &mut s);
        }
        if rng.chance(1, 4) {
            s.push(*rng.pick(&[' ', '\n', '\t']));
        }
    }
    s
}

//! Front end for driving lrpar with token sequences (synthetic lexer), a generic tree type, and
//! an independent explicit-stack LR driver (`RefLR`) that reads a `StateTable` only through
//! `action()` / `goto()`.

use crate::rng::Rng;
use cfgrammar::yacc::YaccGrammar;
use cfgrammar::{NewlineCache, PIdx, RIdx, Span, Symbol, TIdx};
use lrlex::{DefaultLexeme, DefaultLexerTypes, LRNonStreamingLexer};
use lrpar::{LexParseError, Lexeme, ParseRepair, RTParserBuilder, RecoveryKind};
use lrtable::{Action, StIdx, StateTable};
use std::str::FromStr;

pub type LT = DefaultLexerTypes<u32>;
pub type Lx = DefaultLexeme<u32>;

/// Synthetic input: text + lexemes with distinct, increasing, non-overlapping spans.
pub struct SynInput {
    pub text: String,
    pub lexemes: Vec<Lx>,
}

/// Build a synthetic text for a token sequence. Every lexeme is 1-3 bytes, separated by 0-3
/// spaces (gaps make "end of previous lexeme" differ from "start of next lexeme").
pub fn syn_input(toks: &[TIdx<u32>], rng: &mut Rng, gaps: bool) -> SynInput {
    let mut text = String::new();
    let mut lexemes = vec![];
    if gaps && rng.chance(1, 3) {
        for _ in 0..rng.range(1, 3) {
            text.push(' ');
        }
    }
    for t in toks {
        let start = text.len();
        let len = if gaps { rng.range(1, 3) } else { 1 };
        for _ in 0..len {
            text.push((b'a' + (u32::from(*t) % 26) as u8) as char);
        }
        lexemes.push(Lx::new(u32::from(*t), start, len));
        if gaps {
            for _ in 0..rng.below(4) {
                text.push(' ');
            }
        } else {
            text.push(' ');
        }
    }
    SynInput { text, lexemes }
}

/// Like `syn_input` with gaps, but about one lexeme in four is flagged faulty by the "lexer" (the
/// Lexeme trait allows a lexer to hand over faulty lexemes of non-zero length; the parser must treat
/// them like any other lexeme of their token, span included).
pub fn syn_input_with_faulty_lexemes(toks: &[TIdx<u32>], rng: &mut Rng) -> SynInput {
    let mut si = syn_input(toks, rng, true);
    for l in si.lexemes.iter_mut() {
        if rng.chance(1, 4) {
            *l = Lx::new_faulty(l.tok_id(), l.span().start(), l.span().len());
        }
    }
    si
}

impl SynInput {
    pub fn lexer(&self) -> LRNonStreamingLexer<'_, '_, LT> {
        LRNonStreamingLexer::new(&self.text, self.lexemes.iter().map(|l| Ok(*l)).collect(), NewlineCache::from_str(&self.text).unwrap())
    }
    /// index of the real lexeme with exactly this span, if any
    pub fn index_of_span(&self, sp: Span) -> Option<usize> {
        self.lexemes.iter().position(|l| l.span() == sp)
    }
    /// The end-of-input lexeme's expected position
    pub fn eof_pos(&self) -> usize {
        self.lexemes.last().map(|l| l.span().end()).unwrap_or(0)
    }
}

#[derive(Clone, Debug)]
pub enum Tree {
    Term { tidx: u32, start: usize, end: usize, faulty: bool },
    Nonterm { ridx: u32, kids: Vec<Tree> },
}

// Trees can be tens of thousands of levels deep (a parse that inserts lexemes at one position until
// its budget runs out nests one level per insertion): comparison, traversal and drop are iterative.
impl PartialEq for Tree {
    fn eq(&self, other: &Tree) -> bool {
        let mut work: Vec<(&Tree, &Tree)> = vec![(self, other)];
        while let Some((a, b)) = work.pop() {
            match (a, b) {
                (Tree::Term { tidx: t1, start: s1, end: e1, faulty: f1 }, Tree::Term { tidx: t2, start: s2, end: e2, faulty: f2 }) => {
                    if (t1, s1, e1, f1) != (t2, s2, e2, f2) {
                        return false;
                    }
                }
                (Tree::Nonterm { ridx: r1, kids: k1 }, Tree::Nonterm { ridx: r2, kids: k2 }) => {
                    if r1 != r2 || k1.len() != k2.len() {
                        return false;
                    }
                    work.extend(k1.iter().zip(k2.iter()));
                }
                _ => return false,
            }
        }
        true
    }
}
impl Eq for Tree {}

impl Drop for Tree {
    fn drop(&mut self) {
        let mut work: Vec<Tree> = vec![];
        if let Tree::Nonterm { kids, .. } = self {
            work.append(kids);
        }
        while let Some(mut t) = work.pop() {
            if let Tree::Nonterm { kids, .. } = &mut t {
                work.append(kids);
            }
        }
    }
}

impl Tree {
    pub fn leaves<'a>(&'a self, out: &mut Vec<&'a Tree>) {
        let mut work: Vec<&'a Tree> = vec![self];
        while let Some(t) = work.pop() {
            match t {
                Tree::Term { .. } => out.push(t),
                Tree::Nonterm { kids, .. } => work.extend(kids.iter().rev()),
            }
        }
    }
    pub fn pp(&self, grm: &YaccGrammar<u32>) -> String {
        match self {
            Tree::Term { tidx, start, end, faulty } => format!("{}{}@{}..{}", grm.token_name(TIdx(*tidx)).unwrap_or("$"), if *faulty { "!" } else { "" }, start, end),
            Tree::Nonterm { ridx, kids } => format!("({}{})", grm.rule_name_str(RIdx(*ridx)), kids.iter().map(|k| format!(" {}", k.pp(grm))).collect::<String>()),
        }
    }
}

pub fn term_of(l: Lx) -> Tree {
    Tree::Term { tidx: l.tok_id(), start: l.span().start(), end: l.span().end(), faulty: l.faulty() }
}

pub type PErr = LexParseError<u32, LT>;

/// Parse with parse_map into a `Tree`.
pub fn parse_tree(
    grm: &YaccGrammar<u32>,
    st: &StateTable<u32>,
    inp: &SynInput,
    rk: RecoveryKind,
    cost: &dyn Fn(TIdx<u32>) -> u8,
) -> (Option<Tree>, Vec<PErr>) {
    let lexer = inp.lexer();
    // both orders of the two builder calls are in use (chosen by the input's length)
    let pb = if inp.text.len() % 2 == 0 { RTParserBuilder::<u32, LT>::new(grm, st).recoverer(rk).term_costs(cost) } else { RTParserBuilder::<u32, LT>::new(grm, st).term_costs(cost).recoverer(rk) };
    pb.parse_map(&lexer, &|l| term_of(l), &|ridx, kids| Tree::Nonterm { ridx: u32::from(ridx), kids })
}

/// Validate that `t` is a derivation tree: every nonterm's children spell one production of
/// its rule. Returns the error description if not.
pub fn validate_derivation(grm: &YaccGrammar<u32>, t: &Tree) -> Result<(), String> {
    match t {
        Tree::Term { .. } => Ok(()),
        Tree::Nonterm { ridx, kids } => {
            let want: Vec<Symbol<u32>> = kids
                .iter()
                .map(|k| match k {
                    Tree::Term { tidx, .. } => Symbol::Token(TIdx(*tidx)),
                    Tree::Nonterm { ridx, .. } => Symbol::Rule(RIdx(*ridx)),
                })
                .collect();
            if *ridx >= u32::from(grm.rules_len()) {
                return Err(format!("rule index {ridx} out of range"));
            }
            let ok = grm.rule_to_prods(RIdx(*ridx)).iter().any(|p| grm.prod(*p) == want.as_slice());
            if !ok {
                return Err(format!("children of a {} node spell no production of that rule: {:?}", grm.rule_name_str(RIdx(*ridx)), want));
            }
            for k in kids {
                validate_derivation(grm, k)?;
            }
            Ok(())
        }
    }
}

// ---------------------------------------------------------------------------------------------
// Independent LR driver

#[derive(Clone)]
pub struct RefLR<'a> {
    pub grm: &'a YaccGrammar<u32>,
    pub st: &'a StateTable<u32>,
    pub stack: Vec<StIdx<u32>>,
    pub trees: Vec<Tree>,
    /// number of reductions performed (for statistics)
    pub reductions: u64,
}

#[derive(Clone, Copy, Debug, PartialEq, Eq)]
pub enum Step {
    Shifted,
    Accepted,
    Error,
}

impl<'a> RefLR<'a> {
    pub fn new(grm: &'a YaccGrammar<u32>, st: &'a StateTable<u32>) -> Self {
        RefLR { grm, st, stack: vec![st.start_state()], trees: vec![], reductions: 0 }
    }
    pub fn top(&self) -> StIdx<u32> {
        *self.stack.last().unwrap()
    }
    /// Perform reductions under lookahead `la` and then shift the lexeme (given as a tree leaf),
    /// or accept, or stop at an error (the configuration then reflects the reductions done).
    /// `max_reductions` guards against reduce loops.
    pub fn feed(&mut self, la: TIdx<u32>, leaf: Option<Tree>) -> Step {
        let mut guard = 0;
        loop {
            match self.st.action(self.top(), la) {
                Action::Shift(s) => {
                    self.stack.push(s);
                    self.trees.push(leaf.expect("shift needs a lexeme"));
                    return Step::Shifted;
                }
                Action::Reduce(p) => {
                    guard += 1;
                    if guard > 100_000 {
                        return Step::Error;
                    }
                    self.reduce(p);
                }
                Action::Accept => return Step::Accepted,
                Action::Error => return Step::Error,
            }
        }
    }
    pub fn reduce(&mut self, p: PIdx<u32>) {
        let n = self.grm.prod(p).len();
        let r = self.grm.prod_to_rule(p);
        let kids = self.trees.split_off(self.trees.len() - n);
        self.stack.truncate(self.stack.len() - n);
        self.trees.push(Tree::Nonterm { ridx: u32::from(r), kids });
        let g = self.st.goto(self.top(), r).expect("goto must exist after a reduction");
        self.stack.push(g);
        self.reductions += 1;
    }
    /// Would `la` be shifted (after reductions) from this configuration? Works on a copy of the stack only.
    pub fn can_shift(&self, la: TIdx<u32>) -> bool {
        let mut stack = self.stack.clone();
        let mut guard = 0;
        loop {
            match self.st.action(*stack.last().unwrap(), la) {
                Action::Shift(_) => return true,
                Action::Reduce(p) => {
                    guard += 1;
                    if guard > 100_000 {
                        return false;
                    }
                    let n = self.grm.prod(p).len();
                    let r = self.grm.prod_to_rule(p);
                    stack.truncate(stack.len() - n);
                    match self.st.goto(*stack.last().unwrap(), r) {
                        Some(g) => stack.push(g),
                        None => return false,
                    }
                }
                _ => return false,
            }
        }
    }
}

/// Stack-only LR configuration (no trees), cheap to clone: used by the reference repair search.
#[derive(Clone, PartialEq, Eq, Hash)]
pub struct Cfg {
    pub stack: Vec<StIdx<u32>>,
}

impl Cfg {
    /// reductions under `la`, then Shift/Accept/Error. On Error the stack is left reduced.
    pub fn feed(&mut self, grm: &YaccGrammar<u32>, st: &StateTable<u32>, la: TIdx<u32>) -> Step {
        let mut guard = 0;
        loop {
            match st.action(*self.stack.last().unwrap(), la) {
                Action::Shift(s) => {
                    self.stack.push(s);
                    return Step::Shifted;
                }
                Action::Reduce(p) => {
                    guard += 1;
                    if guard > 100_000 {
                        return Step::Error;
                    }
                    let n = grm.prod(p).len();
                    let r = grm.prod_to_rule(p);
                    self.stack.truncate(self.stack.len() - n);
                    match st.goto(*self.stack.last().unwrap(), r) {
                        Some(g) => self.stack.push(g),
                        None => return Step::Error,
                    }
                }
                Action::Accept => return Step::Accepted,
                Action::Error => return Step::Error,
            }
        }
    }
}

pub fn pp_repair(grm: &YaccGrammar<u32>, r: &ParseRepair<Lx, u32>) -> String {
    match r {
        ParseRepair::Insert(t) => format!("Insert {}", grm.token_name(*t).unwrap_or("$")),
        ParseRepair::Delete(l) => format!("Delete {}@{}", grm.token_name(TIdx(l.tok_id())).unwrap_or("$"), l.span().start()),
        ParseRepair::Shift(l) => format!("Shift {}@{}", grm.token_name(TIdx(l.tok_id())).unwrap_or("$"), l.span().start()),
    }
}

/// Static check on a table: is there a (state, lookahead) from which the parser performs
/// reductions forever without consuming input (an epsilon/unit reduction loop that never pops
/// below its starting stack height)? Any infinite reduce sequence on a fixed lookahead has a
/// point after which it never pops below the then-current height, so simulating from every
/// (state, lookahead) with an unknown stack below is complete. Used only to *exclude*
/// grammars from parsing workloads (grammars with conflicts can legitimately have such loops,
/// e.g. hidden left recursion whose conflict resolves to the empty reduction).
pub fn table_has_reduce_loop(grm: &YaccGrammar<u32>, sg_states: usize, st: &StateTable<u32>) -> bool {
    for s in 0..sg_states {
        let s = StIdx(s as u32);
        for la in grm.iter_tidxs() {
            if !matches!(st.action(s, la), Action::Reduce(_)) {
                continue;
            }
            let mut stack = vec![s];
            let mut steps = 0;
            loop {
                match st.action(*stack.last().unwrap(), la) {
                    Action::Reduce(p) => {
                        let n = grm.prod(p).len();
                        if n > stack.len() - 1 {
                            break; // depends on the unknown context below
                        }
                        stack.truncate(stack.len() - n);
                        match st.goto(*stack.last().unwrap(), grm.prod_to_rule(p)) {
                            Some(g) => stack.push(g),
                            None => break,
                        }
                        steps += 1;
                        if steps > 5_000 || stack.len() > 1_000 {
                            return true;
                        }
                    }
                    _ => break,
                }
            }
        }
    }
    false
}

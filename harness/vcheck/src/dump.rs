//! Canonical textual dumps of every public query of a grammar / state graph / state table, generic
//! over the index storage type (indices are printed as plain integers, so dumps of the same grammar
//! built with different widths are comparable), and generic parsing of token-index inputs.

use cfgrammar::yacc::YaccGrammar;
use cfgrammar::{NewlineCache, RIdx, Symbol, TIdx};
use lrlex::{DefaultLexeme, DefaultLexerTypes, LRNonStreamingLexer};
use lrpar::{LexParseError, Lexeme, ParseRepair, RTParserBuilder, RecoveryKind};
use lrtable::{Action, StIdx, StateGraph, StateTable};
use num_traits::{AsPrimitive, PrimInt, Unsigned};
use std::fmt::{Debug, Write};
use std::hash::Hash;
use std::str::FromStr;

pub trait St: 'static + Debug + Hash + PrimInt + Unsigned {}
impl<T: 'static + Debug + Hash + PrimInt + Unsigned> St for T {}

fn sym<T: St>(s: &Symbol<T>) -> String
where
    usize: AsPrimitive<T>,
{
    match s {
        Symbol::Rule(r) => format!("R{}", usize::from(*r)),
        Symbol::Token(t) => format!("T{}", usize::from(*t)),
    }
}

pub fn dump_grm<T: St>(g: &YaccGrammar<T>) -> String
where
    usize: AsPrimitive<T>,
{
    let mut o = String::new();
    let nr = usize::from(g.rules_len());
    let np = usize::from(g.prods_len());
    let nt = usize::from(g.tokens_len());
    writeln!(o, "rules={nr} prods={np} tokens={nt} eof={} start_prod={} start_rule={} implicit={:?}", usize::from(g.eof_token_idx()), usize::from(g.start_prod()), usize::from(g.start_rule_idx()), g.implicit_rule().map(usize::from)).ok();
    writeln!(o, "iter_rules={:?} iter_pidxs={:?} iter_tidxs={:?}", g.iter_rules().map(usize::from).collect::<Vec<_>>(), g.iter_pidxs().map(usize::from).collect::<Vec<_>>(), g.iter_tidxs().map(usize::from).collect::<Vec<_>>()).ok();
    for r in 0..nr {
        let ri = RIdx(r.as_());
        let sp = g.rule_name_span(ri);
        writeln!(o, "rule {r}: name={:?} span={}..{} prods={:?} actiontype={:?} idx={:?}", g.rule_name_str(ri), sp.start(), sp.end(), g.rule_to_prods(ri).iter().map(|p| usize::from(*p)).collect::<Vec<_>>(), g.actiontype(ri), g.rule_idx(g.rule_name_str(ri)).map(usize::from)).ok();
    }
    for p in g.iter_pidxs() {
        // prod_span is only defined for productions that come from the source
        let span = crate::frame::guarded(|| g.prod_span(p)).map(|s| format!("{}..{}", s.start(), s.end())).unwrap_or_else(|_| "none".into());
        writeln!(o, "prod {}: rule={} syms=[{}] len={} prec={:?} span={} action={:?} action_span={:?} pp={:?}", usize::from(p), usize::from(g.prod_to_rule(p)), g.prod(p).iter().map(sym).collect::<Vec<_>>().join(" "), usize::from(g.prod_len(p)), g.prod_precedence(p), span, g.action(p), g.action_span(p).map(|s| (s.start(), s.end())), g.pp_prod(p)).ok();
    }
    for t in g.iter_tidxs() {
        writeln!(o, "token {}: name={:?} prec={:?} epp={:?} span={:?} avoid_insert={} idx={:?}", usize::from(t), g.token_name(t), g.token_precedence(t), g.token_epp(t), g.token_span(t).map(|s| (s.start(), s.end())), g.avoid_insert(t), g.token_name(t).and_then(|n| g.token_idx(n)).map(usize::from)).ok();
    }
    let mut tm: Vec<(String, usize)> = g.tokens_map().iter().map(|(k, v)| (k.to_string(), usize::from(*v))).collect();
    tm.sort();
    writeln!(o, "tokens_map={tm:?}").ok();
    writeln!(o, "expect={:?} expectrr={:?} parse_param={:?} parse_generics={:?} programs={:?}", g.expect(), g.expectrr(), g.parse_param(), g.parse_generics(), g.programs()).ok();
    o
}

fn action_str<T: St>(a: Action<T>) -> String
where
    usize: AsPrimitive<T>,
{
    match a {
        Action::Shift(s) => format!("s{}", usize::from(s)),
        Action::Reduce(p) => format!("r{}", usize::from(p)),
        Action::Accept => "acc".into(),
        Action::Error => ".".into(),
    }
}

/// `conflicts_sorted`: list conflicts as a sorted set (their order is unspecified across runs).
pub fn dump_table<T: St>(g: &YaccGrammar<T>, nstates: usize, st: &StateTable<T>, conflicts_sorted: bool) -> String
where
    usize: AsPrimitive<T>,
{
    let mut o = String::new();
    writeln!(o, "start_state={} states={nstates}", usize::from(st.start_state())).ok();
    for s in 0..nstates {
        let si = StIdx::<T>(s.as_());
        let acts: Vec<String> = g.iter_tidxs().map(|t| action_str(st.action(si, t))).collect();
        let gotos: Vec<String> = g.iter_rules().map(|r| st.goto(si, r).map(|x| usize::from(x).to_string()).unwrap_or_else(|| ".".into())).collect();
        writeln!(o, "state {s}: actions=[{}] gotos=[{}] state_actions={:?} state_shifts={:?} core_reduces={:?} reduce_only={}", acts.join(" "), gotos.join(" "), st.state_actions(si).map(usize::from).collect::<Vec<_>>(), st.state_shifts(si).map(usize::from).collect::<Vec<_>>(), st.core_reduces(si).map(usize::from).collect::<Vec<_>>(), st.reduce_only_state(si)).ok();
    }
    match st.conflicts() {
        None => {
            writeln!(o, "conflicts=none").ok();
        }
        Some(c) => {
            let mut sr: Vec<(usize, usize, usize)> = c.sr_conflicts().map(|(t, p, s)| (usize::from(*t), usize::from(*p), usize::from(*s))).collect();
            let mut rr: Vec<(usize, usize, usize, usize)> = c.rr_conflicts().map(|(t, p1, p2, s)| (usize::from(*t), usize::from(*p1), usize::from(*p2), usize::from(*s))).collect();
            if conflicts_sorted {
                sr.sort();
                rr.sort();
            }
            writeln!(o, "conflicts sr_len={} rr_len={} sr={sr:?} rr={rr:?}", c.sr_len(), c.rr_len()).ok();
        }
    }
    o
}

/// Canonical renumbering of states: breadth-first from the start state, following edges in the
/// order (tokens by index, then rules by index). Returns old index -> new index.
pub fn canonical_state_order<T: St>(sg: &StateGraph<T>) -> Vec<usize>
where
    usize: AsPrimitive<T>,
{
    let n = usize::from(sg.all_states_len());
    let mut map = vec![usize::MAX; n];
    let mut next = 0;
    let mut q = std::collections::VecDeque::new();
    let s0 = usize::from(sg.start_state());
    map[s0] = next;
    next += 1;
    q.push_back(s0);
    while let Some(s) = q.pop_front() {
        let mut es: Vec<(u8, usize, usize)> = sg
            .edges(StIdx(s.as_()))
            .iter()
            .map(|(k, v)| match k {
                Symbol::Token(t) => (0u8, usize::from(*t), usize::from(*v)),
                Symbol::Rule(r) => (1u8, usize::from(*r), usize::from(*v)),
            })
            .collect();
        es.sort();
        for (_, _, t) in es {
            if t < n && map[t] == usize::MAX {
                map[t] = next;
                next += 1;
                q.push_back(t);
            }
        }
    }
    for m in map.iter_mut() {
        if *m == usize::MAX {
            *m = next;
            next += 1;
        }
    }
    map
}

/// Dump of graph + table with states renumbered canonically (so that two isomorphic automata
/// whose states were merely created in a different order dump identically).
pub fn dump_canonical<T: St>(g: &YaccGrammar<T>, sg: &StateGraph<T>, st: &StateTable<T>) -> String
where
    usize: AsPrimitive<T>,
{
    let map = canonical_state_order(sg);
    let n = map.len();
    let mut inv = vec![0usize; n];
    for (old, new) in map.iter().enumerate() {
        inv[*new] = old;
    }
    let mut o = String::new();
    writeln!(o, "canonical start={} states={n}", map[usize::from(st.start_state())]).ok();
    for new in 0..n {
        let old = StIdx::<T>(inv[new].as_());
        let acts: Vec<String> = g
            .iter_tidxs()
            .map(|t| match st.action(old, t) {
                Action::Shift(s) => format!("s{}", map[usize::from(s)]),
                a => action_str(a),
            })
            .collect();
        let gotos: Vec<String> = g.iter_rules().map(|r| st.goto(old, r).map(|x| map[usize::from(x)].to_string()).unwrap_or_else(|| ".".into())).collect();
        let items = |is: &lrtable_items::Items<T>| -> Vec<String> {
            let mut v: Vec<String> = is.iter().map(|((p, d), c)| format!("({},{}):{:?}", usize::from(*p), usize::from(*d), c.iter_set_bits(..).collect::<Vec<_>>())).collect();
            v.sort();
            v
        };
        writeln!(o, "cstate {new}: actions=[{}] gotos=[{}] state_actions={:?} state_shifts={:?} core_reduces={:?} reduce_only={} core={:?} closed={:?}", acts.join(" "), gotos.join(" "), st.state_actions(old).map(usize::from).collect::<Vec<_>>(), st.state_shifts(old).map(usize::from).collect::<Vec<_>>(), st.core_reduces(old).map(usize::from).collect::<Vec<_>>(), st.reduce_only_state(old), items(&sg.core_state(old).items), items(&sg.closed_state(old).items)).ok();
    }
    if let Some(c) = st.conflicts() {
        let mut sr: Vec<(usize, usize, usize)> = c.sr_conflicts().map(|(t, p, s)| (usize::from(*t), usize::from(*p), map[usize::from(*s)])).collect();
        let mut rr: Vec<(usize, usize, usize, usize)> = c.rr_conflicts().map(|(t, p1, p2, s)| (usize::from(*t), usize::from(*p1).min(usize::from(*p2)), usize::from(*p1).max(usize::from(*p2)), map[usize::from(*s)])).collect();
        sr.sort();
        rr.sort();
        writeln!(o, "conflicts sr={sr:?} rr={rr:?}").ok();
    }
    o
}

pub fn dump_graph<T: St>(sg: &StateGraph<T>) -> String
where
    usize: AsPrimitive<T>,
{
    let mut o = String::new();
    let n = usize::from(sg.all_states_len());
    writeln!(o, "graph start={} states={n} edges={}", usize::from(sg.start_state()), sg.all_edges_len()).ok();
    for s in 0..n {
        let si = StIdx::<T>(s.as_());
        let fmt_items = |is: &lrtable_items::Items<T>| -> Vec<String> {
            let mut v: Vec<String> = is.iter().map(|((p, d), c)| format!("({},{}):{:?}", usize::from(*p), usize::from(*d), c.iter_set_bits(..).collect::<Vec<_>>())).collect();
            v.sort();
            v
        };
        let mut e: Vec<String> = sg.edges(si).iter().map(|(k, v)| format!("{}->{}", sym(k), usize::from(*v))).collect();
        e.sort();
        writeln!(o, "gstate {s}: core={:?} closed={:?} edges={:?}", fmt_items(&sg.core_state(si).items), fmt_items(&sg.closed_state(si).items), e).ok();
    }
    o
}

pub mod lrtable_items {
    use cfgrammar::{PIdx, SIdx};
    pub type Items<T> = std::collections::HashMap<(PIdx<T>, SIdx<T>), vob::Vob, std::hash::BuildHasherDefault<fnv::FnvHasher>>;
}

/// Parse a token-index input and render the outcome canonically (tree, errors, repair sets sorted).
pub fn parse_dump<T: St>(g: &YaccGrammar<T>, st: &StateTable<T>, toks: &[usize], recov: bool) -> String
where
    usize: AsPrimitive<T>,
    T: TryFrom<usize>,
{
    parse_dump_mapped(g, st, toks, recov, None)
}

pub fn parse_dump_mapped<T: St>(g: &YaccGrammar<T>, st: &StateTable<T>, toks: &[usize], recov: bool, state_map: Option<&[usize]>) -> String
where
    usize: AsPrimitive<T>,
    T: TryFrom<usize>,
{
    let mut text = String::new();
    let mut lexemes: Vec<Result<DefaultLexeme<T>, lrlex::LRLexError>> = vec![];
    for t in toks {
        let start = text.len();
        text.push('x');
        text.push(' ');
        lexemes.push(Ok(DefaultLexeme::new((*t).as_(), start, 1)));
    }
    let lexer: LRNonStreamingLexer<DefaultLexerTypes<T>> = LRNonStreamingLexer::new(&text, lexemes, NewlineCache::from_str(&text).unwrap());
    lrpar::verif::set_recovery_budget_ms(Some(3_600_000));
    lrpar::verif::set_recovery_step_budget(Some(1200));
    let pb = RTParserBuilder::<T, DefaultLexerTypes<T>>::new(g, st).recoverer(if recov { RecoveryKind::CPCTPlus } else { RecoveryKind::None });
    #[derive(Debug)]
    enum N {
        T(usize, usize, usize, bool),
        R(usize, Vec<N>),
    }
    let r = crate::frame::guarded(|| pb.parse_map(&lexer, &|l: DefaultLexeme<T>| N::T(l.tok_id().to_usize().unwrap(), l.span().start(), l.span().end(), l.faulty()), &|r: RIdx<T>, kids| N::R(usize::from(r), kids)));
    lrpar::verif::set_recovery_budget_ms(None);
    lrpar::verif::set_recovery_step_budget(None);
    match r {
        Err(p) => format!("PANIC {p}"),
        Ok((tree, errs)) => {
            let mut o = String::new();
            // with recovery the choice among equal-rank repairs is unspecified: only dump the tree when no repair was applied
            let applied = errs.iter().any(|e| matches!(e, LexParseError::ParseError(pe) if !pe.repairs().is_empty()));
            if applied {
                // (whether a value comes back depends on which equal-rank repair was applied)
                write!(o, "tree=<after-repair> ").ok();
            } else {
                write!(o, "tree={tree:?} ").ok();
            }
            for e in errs.iter().take(1) {
                if let LexParseError::ParseError(pe) = e {
                    let mut reps: Vec<String> = pe
                        .repairs()
                        .iter()
                        .map(|s| {
                            s.iter()
                                .map(|r| match r {
                                    ParseRepair::Insert(t) => format!("I{}", usize::from(*t)),
                                    ParseRepair::Delete(l) => format!("D{}", l.span().start()),
                                    ParseRepair::Shift(l) => format!("S{}", l.span().start()),
                                })
                                .collect::<Vec<_>>()
                                .join(",")
                        })
                        .collect();
                    reps.sort();
                    let stn = usize::from(pe.stidx());
                    write!(o, "err@{} st={} repairs={reps:?} ", pe.lexeme().span().start(), state_map.map(|m| m[stn]).unwrap_or(stn)).ok();
                }
            }
            write!(o, "nerrs={}", if applied { "n/a".to_string() } else { errs.len().to_string() }).ok();
            o
        }
    }
}

pub fn tidx_usize<T: St>(t: TIdx<T>) -> usize
where
    usize: AsPrimitive<T>,
{
    usize::from(t)
}

//! Reference models computed on the abstract grammar (never calling the code under test):
//! productive / reachable / nullable / FIRST / FOLLOW / derivation cycles / sentence costs,
//! an Earley recogniser (membership, viable prefixes), a sentence sampler, and a canonical
//! LR(1) construction with a table-driven reference parser.

use crate::ag::{ASym, AG};
use crate::rng::Rng;
use std::collections::{BTreeSet, HashMap, HashSet, VecDeque};

pub fn productive(g: &AG) -> Vec<bool> {
    let n = g.rules.len();
    let mut p = vec![false; n];
    loop {
        let mut ch = false;
        for r in 0..n {
            if p[r] {
                continue;
            }
            if g.rules[r].prods.iter().any(|pr| pr.syms.iter().all(|s| match s {
                ASym::T(_) => true,
                ASym::R(x) => p[*x],
            })) {
                p[r] = true;
                ch = true;
            }
        }
        if !ch {
            return p;
        }
    }
}

/// rules reachable from the start rule (through all productions)
pub fn reachable(g: &AG) -> Vec<bool> {
    reachable_from(g, g.start)
}

pub fn reachable_from(g: &AG, from: usize) -> Vec<bool> {
    let n = g.rules.len();
    let mut seen = vec![false; n];
    let mut q = VecDeque::new();
    seen[from] = true;
    q.push_back(from);
    while let Some(r) = q.pop_front() {
        for p in &g.rules[r].prods {
            for s in &p.syms {
                if let ASym::R(x) = s {
                    if !seen[*x] {
                        seen[*x] = true;
                        q.push_back(*x);
                    }
                }
            }
        }
    }
    seen
}

/// has_path(a, b): b occurs in some production of a rule reachable from a (in >= 1 step)
pub fn has_path(g: &AG, a: usize, b: usize) -> bool {
    // BFS over "occurs in a production of"
    let n = g.rules.len();
    let mut seen = vec![false; n];
    let mut q = VecDeque::new();
    q.push_back(a);
    let mut first = true;
    while let Some(r) = q.pop_front() {
        if !first && r == b {
            return true;
        }
        first = false;
        for p in &g.rules[r].prods {
            for s in &p.syms {
                if let ASym::R(x) = s {
                    if *x == b {
                        return true;
                    }
                    if !seen[*x] {
                        seen[*x] = true;
                        q.push_back(*x);
                    }
                }
            }
        }
    }
    false
}

pub fn nullable(g: &AG) -> Vec<bool> {
    let n = g.rules.len();
    let mut nul = vec![false; n];
    loop {
        let mut ch = false;
        for r in 0..n {
            if nul[r] {
                continue;
            }
            if g.rules[r].prods.iter().any(|pr| pr.syms.iter().all(|s| match s {
                ASym::T(_) => false,
                ASym::R(x) => nul[*x],
            })) {
                nul[r] = true;
                ch = true;
            }
        }
        if !ch {
            return nul;
        }
    }
}

/// FIRST sets over sentential forms (textbook): relation closure "begins directly with".
pub fn first_sets(g: &AG) -> Vec<BTreeSet<usize>> {
    let n = g.rules.len();
    let nul = nullable(g);
    // begins-directly-with edges: rule -> symbols
    let mut bdw_rule: Vec<BTreeSet<usize>> = vec![BTreeSet::new(); n];
    let mut bdw_tok: Vec<BTreeSet<usize>> = vec![BTreeSet::new(); n];
    for r in 0..n {
        for p in &g.rules[r].prods {
            for s in &p.syms {
                match s {
                    ASym::T(t) => {
                        bdw_tok[r].insert(*t);
                        break;
                    }
                    ASym::R(x) => {
                        bdw_rule[r].insert(*x);
                        if !nul[*x] {
                            break;
                        }
                    }
                }
            }
        }
    }
    // transitive closure by BFS from each rule
    let mut out = vec![BTreeSet::new(); n];
    for r in 0..n {
        let mut seen = vec![false; n];
        let mut q = VecDeque::new();
        seen[r] = true;
        q.push_back(r);
        while let Some(x) = q.pop_front() {
            for t in &bdw_tok[x] {
                out[r].insert(*t);
            }
            for y in &bdw_rule[x] {
                if !seen[*y] {
                    seen[*y] = true;
                    q.push_back(*y);
                }
            }
        }
    }
    out
}

/// FIRST of a symbol string followed by a lookahead set; `eof` is represented as usize::MAX.
pub fn first_of_seq(g: &AG, firsts: &[BTreeSet<usize>], nul: &[bool], seq: &[ASym], la: &BTreeSet<usize>) -> BTreeSet<usize> {
    let _ = g;
    let mut out = BTreeSet::new();
    for s in seq {
        match s {
            ASym::T(t) => {
                out.insert(*t);
                return out;
            }
            ASym::R(r) => {
                out.extend(firsts[*r].iter().cloned());
                if !nul[*r] {
                    return out;
                }
            }
        }
    }
    out.extend(la.iter().cloned());
    out
}

pub const EOF: usize = usize::MAX;

/// FOLLOW sets (textbook fixed point over all productions; EOF in FOLLOW(start)).
pub fn follow_sets(g: &AG) -> Vec<BTreeSet<usize>> {
    let n = g.rules.len();
    let nul = nullable(g);
    let firsts = first_sets(g);
    let mut fol: Vec<BTreeSet<usize>> = vec![BTreeSet::new(); n];
    fol[g.start].insert(EOF);
    loop {
        let mut ch = false;
        for r in 0..n {
            for p in &g.rules[r].prods {
                for (i, s) in p.syms.iter().enumerate() {
                    if let ASym::R(x) = s {
                        let rest = &p.syms[i + 1..];
                        let f = first_of_seq(g, &firsts, &nul, rest, &BTreeSet::new());
                        let mut add: BTreeSet<usize> = f;
                        let rest_nullable = rest.iter().all(|y| matches!(y, ASym::R(z) if nul[*z]));
                        if rest_nullable {
                            add.extend(fol[r].iter().cloned());
                        }
                        for a in add {
                            if fol[*x].insert(a) {
                                ch = true;
                            }
                        }
                    }
                }
            }
        }
        if !ch {
            return fol;
        }
    }
}

/// Rules that can derive just themselves: A =>+ A.
pub fn has_derivation_cycle(g: &AG) -> bool {
    let n = g.rules.len();
    let nul = nullable(g);
    // unit edges: A -> B if A: alpha B beta with alpha, beta nullable (all rules)
    let mut edges: Vec<BTreeSet<usize>> = vec![BTreeSet::new(); n];
    for r in 0..n {
        for p in &g.rules[r].prods {
            for (i, s) in p.syms.iter().enumerate() {
                if let ASym::R(x) = s {
                    let others_nullable = p.syms.iter().enumerate().all(|(j, y)| j == i || matches!(y, ASym::R(z) if nul[*z]));
                    if others_nullable {
                        edges[r].insert(*x);
                    }
                }
            }
        }
    }
    for r in 0..n {
        // can r reach r?
        let mut seen = vec![false; n];
        let mut q: VecDeque<usize> = edges[r].iter().cloned().collect();
        while let Some(x) = q.pop_front() {
            if x == r {
                return true;
            }
            if !seen[x] {
                seen[x] = true;
                q.extend(edges[x].iter().cloned());
            }
        }
    }
    false
}

/// Minimum sentence cost per rule (None = unproductive). Knuth's generalisation of Dijkstra,
/// done as a simple fixed point (grammars are small).
pub fn min_costs(g: &AG, cost: &dyn Fn(usize) -> u64) -> Vec<Option<u64>> {
    let n = g.rules.len();
    let mut c: Vec<Option<u64>> = vec![None; n];
    loop {
        let mut ch = false;
        for r in 0..n {
            for p in &g.rules[r].prods {
                let mut tot = Some(0u64);
                for s in &p.syms {
                    tot = match (tot, s) {
                        (Some(t), ASym::T(x)) => Some(t + cost(*x)),
                        (Some(t), ASym::R(x)) => c[*x].map(|y| t + y),
                        (None, _) => None,
                    };
                }
                if let Some(t) = tot {
                    if c[r].map_or(true, |old| t < old) {
                        c[r] = Some(t);
                        ch = true;
                    }
                }
            }
        }
        if !ch {
            return c;
        }
    }
}

#[derive(Clone, Copy, Debug, PartialEq, Eq)]
pub enum MaxCost {
    Unproductive,
    Finite(u64),
    Unbounded,
}

/// Maximum sentence cost per rule over all derivable terminal strings.
/// Only productions whose symbols are all productive can be used in a derivation of a
/// terminal string. Unbounded iff a cycle among such productions that contributes at least
/// one token (cost >= 1) is reachable; cycles contributing nothing (pure unit/nullable
/// cycles) do not change the maximum.
pub fn max_costs(g: &AG, cost: &dyn Fn(usize) -> u64) -> Vec<MaxCost> {
    let n = g.rules.len();
    let prod = productive(g);
    // usable productions
    let usable = |r: usize, pi: usize| -> bool {
        g.rules[r].prods[pi].syms.iter().all(|s| match s {
            ASym::T(_) => true,
            ASym::R(x) => prod[*x],
        })
    };
    // Longest-path by bounded iteration: run Bellman-Ford-like relaxation; if still increasing
    // after enough rounds, the increasing rules are unbounded (a positive cycle), and so is
    // anything that uses them.
    let mut val: Vec<Option<u64>> = vec![None; n];
    let rounds = n * 2 + 4;
    let mut unbounded = vec![false; n];
    for round in 0..(rounds * 2) {
        let mut ch = false;
        for r in 0..n {
            if !prod[r] {
                continue;
            }
            for pi in 0..g.rules[r].prods.len() {
                if !usable(r, pi) {
                    continue;
                }
                let mut tot = Some(0u64);
                for s in &g.rules[r].prods[pi].syms {
                    tot = match (tot, s) {
                        (Some(t), ASym::T(x)) => Some(t.saturating_add(cost(*x))),
                        (Some(t), ASym::R(x)) => val[*x].map(|y| t.saturating_add(y)),
                        (None, _) => None,
                    };
                }
                if let Some(t) = tot {
                    if val[r].map_or(true, |old| t > old) {
                        val[r] = Some(t);
                        ch = true;
                        if round >= rounds {
                            unbounded[r] = true;
                        }
                    }
                }
            }
        }
        if !ch {
            break;
        }
    }
    // propagate unboundedness to users
    loop {
        let mut ch = false;
        for r in 0..n {
            if unbounded[r] || !prod[r] {
                continue;
            }
            for pi in 0..g.rules[r].prods.len() {
                if usable(r, pi) && g.rules[r].prods[pi].syms.iter().any(|s| matches!(s, ASym::R(x) if unbounded[*x])) {
                    unbounded[r] = true;
                    ch = true;
                }
            }
        }
        if !ch {
            break;
        }
    }
    (0..n)
        .map(|r| {
            if !prod[r] {
                MaxCost::Unproductive
            } else if unbounded[r] {
                MaxCost::Unbounded
            } else {
                MaxCost::Finite(val[r].unwrap())
            }
        })
        .collect()
}

// ---------------------------------------------------------------------------------------------
// Earley recogniser

#[derive(Clone, Copy, PartialEq, Eq, Hash, Debug)]
struct EItem {
    rule: usize,
    prod: usize,
    dot: usize,
    origin: usize,
}

pub struct Earley<'a> {
    g: &'a AG,
    nul: Vec<bool>,
    /// only use productive rules when asked for viable prefixes
    prod: Vec<bool>,
}

impl<'a> Earley<'a> {
    pub fn new(g: &'a AG) -> Self {
        Earley { g, nul: nullable(g), prod: productive(g) }
    }

    /// Run the recogniser from `start` over `input` (token indices). Returns, for each k in
    /// 0..=n, whether the chart set after k tokens is non-empty (restricted to productive
    /// rules when `productive_only`), and whether the whole input is a sentence.
    pub fn run(&self, start: usize, input: &[usize], productive_only: bool) -> (Vec<bool>, bool) {
        let g = self.g;
        let n = input.len();
        let mut sets: Vec<Vec<EItem>> = vec![vec![]; n + 1];
        let mut seen: Vec<HashSet<EItem>> = vec![HashSet::new(); n + 1];
        let usable = |r: usize| !productive_only || self.prod[r];
        let usable_prod = |r: usize, p: usize| {
            !productive_only
                || g.rules[r].prods[p].syms.iter().all(|s| match s {
                    ASym::T(_) => true,
                    ASym::R(x) => self.prod[*x],
                })
        };
        let add = |sets: &mut Vec<Vec<EItem>>, seen: &mut Vec<HashSet<EItem>>, k: usize, it: EItem| {
            if seen[k].insert(it) {
                sets[k].push(it);
            }
        };
        if usable(start) {
            for p in 0..g.rules[start].prods.len() {
                if usable_prod(start, p) {
                    add(&mut sets, &mut seen, 0, EItem { rule: start, prod: p, dot: 0, origin: 0 });
                }
            }
        }
        let mut alive = vec![false; n + 1];
        let mut accepted = false;
        for k in 0..=n {
            let mut i = 0;
            while i < sets[k].len() {
                let it = sets[k][i];
                i += 1;
                let syms = &g.rules[it.rule].prods[it.prod].syms;
                if it.dot < syms.len() {
                    match syms[it.dot] {
                        ASym::R(x) => {
                            if usable(x) {
                                for p in 0..g.rules[x].prods.len() {
                                    if usable_prod(x, p) {
                                        add(&mut sets, &mut seen, k, EItem { rule: x, prod: p, dot: 0, origin: k });
                                    }
                                }
                                if self.nul[x] {
                                    // Aycock-Horspool: advance over nullable
                                    add(&mut sets, &mut seen, k, EItem { dot: it.dot + 1, ..it });
                                }
                            }
                        }
                        ASym::T(t) => {
                            if k < n && input[k] == t {
                                add(&mut sets, &mut seen, k + 1, EItem { dot: it.dot + 1, ..it });
                            }
                        }
                    }
                } else {
                    // complete
                    let o = it.origin;
                    let mut j = 0;
                    while j < sets[o].len() {
                        let par = sets[o][j];
                        j += 1;
                        let ps = &g.rules[par.rule].prods[par.prod].syms;
                        if par.dot < ps.len() && ps[par.dot] == ASym::R(it.rule) {
                            add(&mut sets, &mut seen, k, EItem { dot: par.dot + 1, ..par });
                        }
                    }
                }
            }
            alive[k] = !sets[k].is_empty();
            if k == n {
                accepted = sets[k].iter().any(|it| it.rule == start && it.origin == 0 && it.dot == g.rules[it.rule].prods[it.prod].syms.len());
            }
            if !alive[k] {
                break;
            }
        }
        (alive, accepted)
    }

    pub fn member(&self, input: &[usize]) -> bool {
        self.run(self.g.start, input, false).1
    }
    pub fn member_from(&self, rule: usize, input: &[usize]) -> bool {
        self.run(rule, input, false).1
    }
    /// Index of the first lexeme such that input[..=i] is not a prefix of any sentence
    /// (n = the end-of-input marker); None if the input is a sentence.
    pub fn first_nonviable(&self, input: &[usize]) -> Option<usize> {
        let (alive, acc) = self.run(self.g.start, input, true);
        if acc {
            return None;
        }
        for k in 1..=input.len() {
            if !alive[k] {
                return Some(k - 1);
            }
        }
        Some(input.len())
    }
}

// ---------------------------------------------------------------------------------------------
// sentence sampler / mutator

/// Random derivation from `rule` with a depth budget; returns token indices. Uses minimum-cost
/// productions once the budget is exhausted. None if the rule is unproductive.
pub fn sample_sentence(g: &AG, rng: &mut Rng, rule: usize, depth: usize) -> Option<Vec<usize>> {
    let mc = min_costs(g, &|_| 1);
    mc[rule]?;
    let mut out = vec![];
    let mut budget = 200usize;
    // guard against pathological zero-cost cycles via catch of deep recursion: use depth limit
    go_guard(g, rng, &mc, rule, depth, &mut out, &mut budget, &mut 0)?;
    return Some(out);

    fn go_guard(g: &AG, rng: &mut Rng, mc: &[Option<u64>], r: usize, depth: usize, out: &mut Vec<usize>, budget: &mut usize, rec: &mut usize) -> Option<()> {
        *rec += 1;
        if *rec > 5000 || out.len() > 400 {
            return None;
        }
        let cands: Vec<usize> = (0..g.rules[r].prods.len())
            .filter(|p| g.rules[r].prods[*p].syms.iter().all(|s| match s {
                ASym::T(_) => true,
                ASym::R(x) => mc[*x].is_some(),
            }))
            .collect();
        let pc = |p: usize| -> u64 {
            g.rules[r].prods[p].syms.iter().map(|s| match s {
                ASym::T(_) => 1,
                ASym::R(x) => mc[*x].unwrap(),
            }).sum::<u64>()
        };
        let p = if depth == 0 || *budget == 0 {
            // a production achieving the minimum cost; ties broken towards fewer rule symbols
            *cands
                .iter()
                .filter(|p| pc(**p) == mc[r].unwrap())
                .min_by_key(|p| g.rules[r].prods[**p].syms.iter().filter(|s| matches!(s, ASym::R(_))).count())
                .unwrap()
        } else {
            *rng.pick(&cands)
        };
        if *budget > 0 {
            *budget -= 1;
        }
        for s in &g.rules[r].prods[p].syms {
            match s {
                ASym::T(t) => out.push(*t),
                ASym::R(x) => go_guard(g, rng, mc, *x, depth.saturating_sub(1), out, budget, rec)?,
            }
        }
        Some(())
    }
}

/// Token-level mutation of an input: insert / delete / replace / swap / truncate / duplicate.
pub fn mutate(rng: &mut Rng, input: &[usize], ntok: usize, nedits: usize) -> Vec<usize> {
    let mut v = input.to_vec();
    for _ in 0..nedits {
        match rng.below(6) {
            0 => {
                let p = rng.below(v.len() + 1);
                v.insert(p, rng.below(ntok));
            }
            1 => {
                if !v.is_empty() {
                    let p = rng.below(v.len());
                    v.remove(p);
                }
            }
            2 => {
                if !v.is_empty() {
                    let p = rng.below(v.len());
                    v[p] = rng.below(ntok);
                }
            }
            3 => {
                if v.len() >= 2 {
                    let p = rng.below(v.len() - 1);
                    v.swap(p, p + 1);
                }
            }
            4 => {
                if !v.is_empty() {
                    let p = rng.below(v.len());
                    v.truncate(p);
                }
            }
            _ => {
                if !v.is_empty() {
                    let p = rng.below(v.len());
                    let x = v[p];
                    v.insert(p, x);
                }
            }
        }
    }
    v
}

pub fn random_tokens(rng: &mut Rng, ntok: usize, maxlen: usize) -> Vec<usize> {
    let n = rng.below(maxlen + 1);
    (0..n).map(|_| rng.below(ntok)).collect()
}

// ---------------------------------------------------------------------------------------------
// canonical LR(1)

/// Augmented grammar productions: index 0 is  S' -> start ; then all productions in (rule, prod) order.
pub struct Canon {
    pub prods: Vec<(Option<usize>, Vec<ASym>)>, // (lhs rule; None for S'), rhs
    pub prod_id: Vec<Vec<usize>>,               // (rule, prod) -> augmented index
    pub states: Vec<BTreeSet<(usize, usize, usize)>>, // closed item sets: (prod, dot, la) with la = token or EOF
    pub trans: Vec<HashMap<ASym, usize>>,
    pub conflicts: usize,
    /// would merging by core alone (LALR) conflict?
    pub lalr_conflicts: usize,
}

#[derive(Clone, Copy, Debug, PartialEq, Eq)]
pub enum CAction {
    Shift(usize),
    Reduce(usize),
    Accept,
    Error,
}

pub fn canonical_lr1(g: &AG, state_cap: usize) -> Option<Canon> {
    let nul = nullable(g);
    let firsts = first_sets(g);
    let mut prods: Vec<(Option<usize>, Vec<ASym>)> = vec![(None, vec![ASym::R(g.start)])];
    let mut prod_id = vec![];
    for (ri, r) in g.rules.iter().enumerate() {
        let mut ids = vec![];
        for p in &r.prods {
            ids.push(prods.len());
            prods.push((Some(ri), p.syms.clone()));
        }
        prod_id.push(ids);
    }
    let closure = |kernel: &BTreeSet<(usize, usize, usize)>| -> BTreeSet<(usize, usize, usize)> {
        let mut set = kernel.clone();
        let mut q: Vec<(usize, usize, usize)> = kernel.iter().cloned().collect();
        while let Some((p, d, la)) = q.pop() {
            let rhs = &prods[p].1;
            if d < rhs.len() {
                if let ASym::R(b) = rhs[d] {
                    let mut las = BTreeSet::new();
                    las.insert(la);
                    let f = first_of_seq(g, &firsts, &nul, &rhs[d + 1..], &las);
                    for &bp in &prod_id[b] {
                        for &a in &f {
                            let it = (bp, 0, a);
                            if set.insert(it) {
                                q.push(it);
                            }
                        }
                    }
                }
            }
        }
        set
    };
    let mut start = BTreeSet::new();
    start.insert((0usize, 0usize, EOF));
    let s0 = closure(&start);
    let mut states = vec![s0.clone()];
    let mut index: HashMap<BTreeSet<(usize, usize, usize)>, usize> = HashMap::new();
    index.insert(s0, 0);
    let mut trans: Vec<HashMap<ASym, usize>> = vec![HashMap::new()];
    let mut i = 0;
    while i < states.len() {
        let st = states[i].clone();
        let mut by_sym: HashMap<ASym, BTreeSet<(usize, usize, usize)>> = HashMap::new();
        for &(p, d, la) in &st {
            let rhs = &prods[p].1;
            if d < rhs.len() {
                by_sym.entry(rhs[d]).or_default().insert((p, d + 1, la));
            }
        }
        let mut syms: Vec<ASym> = by_sym.keys().cloned().collect();
        syms.sort();
        for s in syms {
            let k = closure(&by_sym[&s]);
            let j = match index.get(&k) {
                Some(j) => *j,
                None => {
                    if states.len() >= state_cap {
                        return None;
                    }
                    states.push(k.clone());
                    trans.push(HashMap::new());
                    index.insert(k, states.len() - 1);
                    states.len() - 1
                }
            };
            trans[i].insert(s, j);
        }
        i += 1;
    }
    // conflicts
    let mut conflicts = 0;
    for (si, st) in states.iter().enumerate() {
        let mut acts: HashMap<usize, BTreeSet<(u8, usize)>> = HashMap::new(); // la -> set of (kind, id)
        for &(p, d, la) in st {
            let rhs = &prods[p].1;
            if d == rhs.len() {
                acts.entry(la).or_default().insert((1, p));
            } else if let ASym::T(t) = rhs[d] {
                acts.entry(t).or_default().insert((0, trans[si][&ASym::T(t)]));
            }
        }
        for v in acts.values() {
            if v.len() > 1 {
                conflicts += 1;
            }
        }
    }
    // LALR check: merge states by core, union lookaheads
    let mut core_groups: HashMap<BTreeSet<(usize, usize)>, Vec<usize>> = HashMap::new();
    for (si, st) in states.iter().enumerate() {
        let core: BTreeSet<(usize, usize)> = st.iter().map(|(p, d, _)| (*p, *d)).collect();
        core_groups.entry(core).or_default().push(si);
    }
    let mut lalr_conflicts = 0;
    for grp in core_groups.values() {
        let mut acts: HashMap<usize, BTreeSet<(u8, usize)>> = HashMap::new();
        for &si in grp {
            for &(p, d, la) in &states[si] {
                let rhs = &prods[p].1;
                if d == rhs.len() {
                    acts.entry(la).or_default().insert((1, p));
                } else if let ASym::T(t) = rhs[d] {
                    acts.entry(t).or_default().insert((0, 0));
                }
            }
        }
        for v in acts.values() {
            if v.len() > 1 {
                lalr_conflicts += 1;
            }
        }
    }
    Some(Canon { prods, prod_id, states, trans, conflicts, lalr_conflicts })
}

/// Reference parse tree
#[derive(Clone, Debug, PartialEq, Eq)]
pub enum RTree {
    Term(usize, usize),            // token, input position
    Node(usize, usize, Vec<RTree>), // rule, prod (index within rule), children
}

impl Canon {
    pub fn action(&self, st: usize, la: usize) -> CAction {
        // only valid for conflict-free automata
        for &(p, d, l) in &self.states[st] {
            let rhs = &self.prods[p].1;
            if d == rhs.len() && l == la {
                if p == 0 {
                    return CAction::Accept;
                }
                return CAction::Reduce(p);
            }
        }
        if la != EOF {
            if let Some(j) = self.trans[st].get(&ASym::T(la)) {
                return CAction::Shift(*j);
            }
        }
        CAction::Error
    }
    /// Parse: Ok(tree) or Err(index of the lexeme at which the error is detected; n = EOF)
    pub fn parse(&self, input: &[usize]) -> Result<RTree, usize> {
        let mut stack = vec![0usize];
        let mut trees: Vec<RTree> = vec![];
        let mut i = 0;
        loop {
            let la = if i < input.len() { input[i] } else { EOF };
            match self.action(*stack.last().unwrap(), la) {
                CAction::Shift(j) => {
                    stack.push(j);
                    trees.push(RTree::Term(la, i));
                    i += 1;
                }
                CAction::Reduce(p) => {
                    let (lhs, rhs) = &self.prods[p];
                    let lhs = lhs.unwrap();
                    let n = rhs.len();
                    let kids = trees.split_off(trees.len() - n);
                    stack.truncate(stack.len() - n);
                    let pi = self.prod_id[lhs].iter().position(|x| *x == p).unwrap();
                    trees.push(RTree::Node(lhs, pi, kids));
                    let top = *stack.last().unwrap();
                    stack.push(self.trans[top][&ASym::R(lhs)]);
                }
                CAction::Accept => return Ok(trees.pop().unwrap()),
                CAction::Error => return Err(i),
            }
        }
    }
}

//! C03 — conflicts are resolved by Yacc's rules and reported exactly.
//! Independent re-derivation of every table cell from the closed item sets, the graph edges
//! and the precedences of the *abstract* grammar; expected conflict multiset; and the
//! `%expect` / `%expect-rr` gate of `CTParserBuilder::build`.

use crate::ag::*;
use crate::frame::*;
use crate::rng::{hash_str, Rng};
use cfgrammar::{PIdx, Symbol, TIdx};
use lrlex::DefaultLexerTypes;
use lrpar::CTParserBuilder;
use lrtable::{Action, StIdx, StateGraph, StateTable};
use serde_json::json;
use std::collections::{BTreeMap, BTreeSet};

pub struct C03;

#[derive(Clone, Copy, Debug, PartialEq, Eq)]
enum Exp {
    Shift,
    Reduce(PIdx<u32>),
    Error,
    Accept,
}

/// Resolve shift vs reduce(p) for token t by the AG's precedences: (action, is_default_rule)
fn resolve_sr(ag: &AG, b: &Built, t: TIdx<u32>, p: PIdx<u32>) -> (Exp, bool) {
    let tp = b.tidx_to_ag[usize::from(t)].and_then(|a| ag.token_prec(a));
    let pp = b.pidx_to_ag[usize::from(p)].and_then(|(r, i)| ag.prod_prec(r, i));
    match (tp, pp) {
        (Some((tl, ta)), Some((pl, _))) => {
            if tl > pl {
                (Exp::Shift, false)
            } else if tl < pl {
                (Exp::Reduce(p), false)
            } else {
                match ta {
                    Assoc::Left => (Exp::Reduce(p), false),
                    Assoc::Right => (Exp::Shift, false),
                    Assoc::Nonassoc => (Exp::Error, false),
                }
            }
        }
        _ => (Exp::Shift, true),
    }
}

pub struct Expected {
    pub sr: usize,
    pub rr: usize,
    /// some cell has a shift and >= 2 reductions whose individual resolutions differ: the
    /// order of applying the two default rules matters there, so counts are not asserted
    pub order_dependent: bool,
}

/// Returns None if the table has an accept/reduce overlap (from_yacc must then have failed).
pub fn check_resolution(ag: &AG, b: &Built, sg: &StateGraph<u32>, st: &StateTable<u32>, out: &mut CaseOut) -> Expected {
    let grm = &b.grm;
    let detail = || json!({"grammar": b.src});
    // declared-earlier order on productions: AG (rule, prod) order as rendered
    let decl_pos = |p: PIdx<u32>| -> (usize, usize) { b.pidx_to_ag[usize::from(p)].unwrap_or((usize::MAX, usize::MAX)) };
    let mut exp_sr: BTreeMap<(u32, u32), BTreeSet<PIdx<u32>>> = BTreeMap::new(); // (state, tok) -> allowed productions
    let mut exp_rr: BTreeMap<(u32, u32), BTreeSet<PIdx<u32>>> = BTreeMap::new(); // (state, tok) -> candidate reductions (k >= 2)
    let mut optional_sr: BTreeSet<(u32, u32)> = BTreeSet::new(); // order-dependent cells
    for si in 0..usize::from(sg.all_states_len()) {
        let s = StIdx(si as u32);
        let closed = sg.closed_state(s);
        for t in grm.iter_tidxs() {
            out.evals += 1;
            out.count("cells", 1);
            let mut reds: Vec<PIdx<u32>> = vec![];
            let mut accept = false;
            for ((p, d), c) in &closed.items {
                if *d == grm.prod_len(*p) && c.get(usize::from(t)) == Some(true) {
                    if *p == grm.start_prod() {
                        accept = true;
                    } else {
                        reds.push(*p);
                    }
                }
            }
            reds.sort_by_key(|p| decl_pos(*p));
            let shift = sg.edge(s, Symbol::Token(t));
            let ncand = reds.len() + usize::from(shift.is_some()) + usize::from(accept);
            if ncand >= 2 {
                out.count("multi_candidate_cells", 1);
            }
            if accept && ncand >= 2 {
                out.violate("accept-overlap", &[], format!("state {si}: accept overlaps another action but from_yacc succeeded"), detail());
                continue;
            }
            let mut allowed: Vec<Exp> = vec![];
            if accept {
                allowed.push(Exp::Accept);
            } else if reds.is_empty() {
                allowed.push(if shift.is_some() { Exp::Shift } else { Exp::Error });
            } else {
                let winner = reds[0];
                if reds.len() >= 2 {
                    out.count("rr_cells", 1);
                    if reds.len() >= 3 {
                        out.count("rr_cells_3way", 1);
                    }
                    exp_rr.insert((si as u32, u32::from(t)), reds.iter().cloned().collect());
                }
                if shift.is_none() {
                    allowed.push(Exp::Reduce(winner));
                } else {
                    let (a, dflt) = resolve_sr(ag, b, t, winner);
                    allowed.push(a);
                    match (a, dflt) {
                        (_, true) => {
                            out.count("sr_default_shift", 1);
                        }
                        (Exp::Shift, false) => {
                            out.count("sr_prec_shift", 1);
                        }
                        (Exp::Reduce(_), false) => {
                            out.count("sr_prec_reduce", 1);
                        }
                        (Exp::Error, false) => {
                            out.count("sr_nonassoc_error", 1);
                        }
                        _ => {}
                    }
                    let mut sr_allowed: BTreeSet<PIdx<u32>> = BTreeSet::new();
                    if dflt {
                        sr_allowed.insert(winner);
                    }
                    if reds.len() >= 2 {
                        // Yacc leaves the order of applying the two rules open: also accept the
                        // outcome of resolving the shift against any of the candidate reductions
                        for r in &reds[1..] {
                            let (a2, d2) = resolve_sr(ag, b, t, *r);
                            let a2 = if let Exp::Reduce(_) = a2 { Exp::Reduce(winner) } else { a2 };
                            if !allowed.contains(&a2) {
                                allowed.push(a2);
                            }
                            if d2 {
                                sr_allowed.insert(*r);
                            }
                            if d2 != dflt || a2 != a {
                                optional_sr.insert((si as u32, u32::from(t)));
                            }
                        }
                    }
                    if !sr_allowed.is_empty() {
                        exp_sr.insert((si as u32, u32::from(t)), sr_allowed);
                    }
                }
            }
            let got = match st.action(s, t) {
                Action::Shift(n) => {
                    if Some(n) != shift {
                        out.violate("wrong-shift-target", &[], format!("state {si}, token {}: shift target is not the graph edge", usize::from(t)), detail());
                    }
                    Exp::Shift
                }
                Action::Reduce(p) => Exp::Reduce(p),
                Action::Accept => Exp::Accept,
                Action::Error => Exp::Error,
            };
            if !allowed.contains(&got) {
                out.violate(
                    "wrong-resolution",
                    &[],
                    format!(
                        "state {si}, token {:?}: table holds {:?} but Yacc's rules prescribe {:?} (candidates: shift={}, reductions={:?})",
                        grm.token_name(t),
                        got,
                        allowed,
                        shift.is_some(),
                        reds.iter().map(|p| grm.pp_prod(*p)).collect::<Vec<_>>()
                    ),
                    detail(),
                );
            }
        }
    }
    // reported conflicts vs expected
    let (rep_sr, rep_rr): (Vec<(u32, u32, PIdx<u32>)>, Vec<(u32, u32, PIdx<u32>, PIdx<u32>)>) = match st.conflicts() {
        None => (vec![], vec![]),
        Some(c) => (
            c.sr_conflicts().map(|(t, p, s)| (u32::from(*s), u32::from(*t), *p)).collect(),
            c.rr_conflicts().map(|(t, p1, p2, s)| (u32::from(*s), u32::from(*t), *p1, *p2)).collect(),
        ),
    };
    let mut seen_sr: BTreeMap<(u32, u32), usize> = BTreeMap::new();
    for (s, t, p) in &rep_sr {
        *seen_sr.entry((*s, *t)).or_insert(0) += 1;
        match exp_sr.get(&(*s, *t)) {
            None => out.violate("spurious-sr-conflict", &[], format!("reported shift/reduce conflict (state {s}, token {t}, production {}) is not a default-rule resolution", usize::from(*p)), detail()),
            Some(al) => {
                if !al.contains(p) {
                    out.violate("wrong-sr-conflict", &[], format!("reported shift/reduce conflict in state {s} on token {t} names production {} which is not the one resolved against", usize::from(*p)), detail());
                }
            }
        }
    }
    for (k, _) in &exp_sr {
        let n = seen_sr.get(k).copied().unwrap_or(0);
        if n != 1 && !(n == 0 && optional_sr.contains(k)) {
            out.violate("missing-sr-conflict", &[], format!("default shift in state {} on token {} reported {n} times (expected once)", k.0, k.1), detail());
        }
    }
    let mut rr_by_cell: BTreeMap<(u32, u32), Vec<(PIdx<u32>, PIdx<u32>)>> = BTreeMap::new();
    for (s, t, p1, p2) in &rep_rr {
        rr_by_cell.entry((*s, *t)).or_default().push((*p1, *p2));
    }
    for (k, pairs) in &rr_by_cell {
        match exp_rr.get(k) {
            None => out.violate("spurious-rr-conflict", &[], format!("reported reduce/reduce conflict in state {} on token {} but that cell has < 2 reductions", k.0, k.1), detail()),
            Some(c) => {
                let kk = c.len();
                let mut ok = pairs.len() == kk - 1;
                // union-find connectivity
                let v: Vec<PIdx<u32>> = c.iter().cloned().collect();
                let mut comp: Vec<usize> = (0..kk).collect();
                for (a, bb) in pairs {
                    let (Some(ia), Some(ib)) = (v.iter().position(|x| x == a), v.iter().position(|x| x == bb)) else {
                        ok = false;
                        continue;
                    };
                    if ia == ib {
                        ok = false;
                    }
                    let (ca, cb) = (comp[ia], comp[ib]);
                    for x in comp.iter_mut() {
                        if *x == cb {
                            *x = ca;
                        }
                    }
                }
                if comp.iter().any(|x| *x != comp[0]) {
                    ok = false;
                }
                if !ok {
                    out.violate("wrong-rr-conflicts", &[], format!("reduce/reduce conflicts reported for state {} token {}: {:?}; the cell's candidates are {:?} (expected {} pairs connecting all of them)", k.0, k.1, pairs, v, kk - 1), detail());
                }
            }
        }
    }
    for (k, c) in &exp_rr {
        if !rr_by_cell.contains_key(k) {
            out.violate("missing-rr-conflict", &[], format!("cell (state {}, token {}) has {} reductions but no reduce/reduce conflict is reported", k.0, k.1, c.len()), detail());
        }
    }
    Expected { sr: exp_sr.len(), rr: exp_rr.values().map(|c| c.len() - 1).sum(), order_dependent: !optional_sr.is_empty() }
}

fn ct_build(ag: &AG, src: &str, dir: &str) -> Result<Result<(), String>, String> {
    std::fs::create_dir_all(dir).map_err(|e| e.to_string())?;
    let gp = format!("{dir}/g.y");
    let op = format!("{dir}/g.y.rs");
    std::fs::write(&gp, src).map_err(|e| e.to_string())?;
    let r = guarded(|| {
        CTParserBuilder::<DefaultLexerTypes<u32>>::new()
            .yacckind(ag.kind.yacckind())
            .grammar_path(&gp)
            .output_path(&op)
            .warnings_are_errors(false)
            .show_warnings(false)
            .build()
            .map(|_| ())
            .map_err(|e| format!("{e}"))
    });
    let exists = std::path::Path::new(&op).exists();
    std::fs::remove_dir_all(dir).ok();
    match r {
        Ok(Ok(())) => {
            if !exists {
                return Err("build returned Ok but wrote no output file".into());
            }
            Ok(Ok(()))
        }
        Ok(Err(e)) => Ok(Err(e)),
        Err(p) => Err(format!("CTParserBuilder::build panicked: {p}")),
    }
}

impl Check for C03 {
    fn id(&self) -> &'static str {
        "C03"
    }
    fn ncases(&self, tier: Tier) -> u64 {
        tier.sz(48000, 750000)
    }
    fn rule(&self) -> &'static str {
        "one generated grammar per case (ambiguous expression grammars with random %left/%right/%nonassoc levels and %prec overrides, multi-way reduce/reduce, dangling else, random grammars; %expect/%expect-rr right, wrong or absent); every (state, token) cell re-derived from closed item sets + edges + the abstract grammar's precedences and compared with action(); reported conflict lists compared with the expected default-rule resolutions; for a third of the cases CTParserBuilder::build must succeed iff the conflict counts equal %expect/%expect-rr (default 0). Non-trivial = table has a cell with >= 2 candidate actions; distinct by normalised grammar."
    }
    fn assumptions(&self) -> Vec<&'static str> {
        vec![
            "in cells with a shift and >= 2 reductions either order of applying the two default rules is accepted",
            "the k-1 reduce/reduce entries of a k-way cell may pair the candidates in any way that connects them",
            "token and production precedences are taken from the abstract grammar, not from YaccGrammar's accessors",
        ]
    }
    fn floor(&self, tier: Tier) -> u64 {
        tier.sz(4000, 40000)
    }
    fn required_counters(&self, _t: Tier) -> Vec<&'static str> {
        vec!["sr_default_shift", "sr_prec_shift", "sr_prec_reduce", "sr_nonassoc_error", "rr_cells", "rr_cells_3way", "ct_builds_ok", "ct_builds_refused", "expect_declared_nonzero_but_no_conflicts"]
    }
    fn run_case(&self, seed: u64, idx: u64, tier: Tier) -> CaseOut {
        // thorough tier: every third case draws its random grammars from the medium-sized family
        set_size_boost(tier == Tier::Thorough && idx % 3 == 1);
        let mut out = CaseOut::new();
        let mut rng = Rng::derive(seed, "C03", idx, 0);
        let mut ag = match rng.weighted(&[45, 15, 15, 25]) {
            0 => gen_expr(&mut rng),
            1 => gen_rr(&mut rng),
            2 => gen_dangling(&mut rng),
            _ => gen_mixed(&mut rng, true),
        };
        ag.compact();
        // vary %expect declarations
        if ag.expect.is_none() && rng.chance(1, 3) {
            ag.expect = Some(rng.below(4));
        }
        if ag.expectrr.is_none() && rng.chance(1, 5) {
            ag.expectrr = Some(rng.below(3));
        }
        let b = match build_grm(&ag) {
            Ok(b) => b,
            Err(e) => {
                out.violate("grammar-build-failed", &["harness"], e, ag.to_json());
                return out;
            }
        };
        let (sg, st) = match guarded(|| b.table()) {
            Ok(Ok(x)) => x,
            Ok(Err(_)) => {
                out.count("from_yacc_err", 1);
                return out;
            }
            Err(p) => {
                out.violate("panic", &["from_yacc"], format!("from_yacc panicked: {p}"), ag.to_json());
                return out;
            }
        };
        let mc0 = out.counters.get("multi_candidate_cells").copied().unwrap_or(0);
        let exp = check_resolution(&ag, &b, &sg, &st, &mut out);
        let mc = out.counters.get("multi_candidate_cells").copied().unwrap_or(0) - mc0;
        if mc > 0 {
            out.nontrivial(hash_str(&ag.normal_form()));
        }
        // correct the %expect declaration in some cases so that both outcomes are exercised
        let mut ag2 = ag.clone();
        let mut changed = false;
        if rng.chance(1, 2) && (exp.sr > 0 || exp.rr > 0) {
            ag2.expect = if exp.sr > 0 || rng.chance(1, 2) { Some(exp.sr) } else { None };
            ag2.expectrr = if exp.rr > 0 || rng.chance(1, 2) { Some(exp.rr) } else { None };
            changed = true;
        }
        if idx % 3 == 0 && !exp.order_dependent {
            let src = if changed { ag2.render() } else { b.src.clone() };
            let agx = if changed { &ag2 } else { &ag };
            let want_ok = (agx.expect.unwrap_or(0), agx.expectrr.unwrap_or(0)) == (exp.sr, exp.rr);
            let dir = format!("{VERIF_DIR}/work/c03-{}-{}", std::process::id(), idx);
            out.evals += 1;
            match ct_build(agx, &src, &dir) {
                Err(e) => out.violate("ct-build-broken", &[], e, json!({"grammar": src})),
                Ok(r) => {
                    if r.is_ok() {
                        out.count("ct_builds_ok", 1);
                    } else {
                        out.count("ct_builds_refused", 1);
                    }
                    let no_conflicts = exp.sr == 0 && exp.rr == 0;
                    if no_conflicts && !want_ok {
                        out.count("expect_declared_nonzero_but_no_conflicts", 1);
                    }
                    if r.is_ok() != want_ok {
                        let tags: Vec<&str> = if no_conflicts && r.is_ok() { vec!["no_conflicts_but_nonzero_expect_accepted"] } else { vec![] };
                        out.violate(
                            "expect-gate",
                            &tags,
                            format!(
                                "CTParserBuilder::build {} but conflicts are sr={} rr={} and the grammar declares %expect {:?} %expect-rr {:?}{}",
                                if r.is_ok() { "succeeded" } else { "failed" },
                                exp.sr,
                                exp.rr,
                                agx.expect,
                                agx.expectrr,
                                r.err().map(|e| format!(" (error: {})", e.chars().take(200).collect::<String>())).unwrap_or_default()
                            ),
                            json!({"grammar": src}),
                        );
                    }
                }
            }
        }
        if idx % 173 == 0 {
            out.sample = Some(json!({"grammar": b.src, "family": ag.family, "multi_candidate_cells": mc, "expected_sr": exp.sr, "expected_rr": exp.rr}));
        }
        out
    }
}

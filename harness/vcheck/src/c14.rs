//! C14 — serialised grammars and tables come back observationally identical.

use crate::ag::*;
use crate::dump::*;
use crate::frame::*;
use crate::refs::*;
use crate::rng::{hash_str, Rng};
use crate::yrender::*;
use cfgrammar::yacc::YaccGrammar;
use lrpar::ctbuilder::{_reconstitute, wincode};
use lrtable::{from_yacc, Minimiser};
use serde_json::json;

pub struct C14;

/// One round trip for a storage type and an encoding; returns Err(description) on a difference.
macro_rules! roundtrip {
    ($t:ty, $cfg:expr, $ag:expr, $src:expr, $inputs:expr) => {{
        (|| -> Result<(usize, u64), String> {
            let grm = YaccGrammar::<$t>::new_with_storaget($ag.kind.yacckind(), $src).map_err(|e| format!("grammar rejected: {e:?}"))?;
            let (sg, st) = from_yacc(&grm, Minimiser::Pager).map_err(|e| format!("SKIP from_yacc: {e}"))?;
            let n = usize::from(sg.all_states_len());
            let cfg = $cfg;
            let gb = wincode::config::serialize(&grm, cfg).map_err(|e| format!("serialising the grammar failed: {e:?}"))?;
            let sb = wincode::config::serialize(&st, cfg).map_err(|e| format!("serialising the table failed: {e:?}"))?;
            let pd = _reconstitute::<_, $t>(&gb, &sb, cfg);
            let mut queries = 0u64;
            let (a, b) = (dump_grm(&grm), dump_grm(pd.grm()));
            queries += a.lines().count() as u64;
            if a != b {
                let d = a.lines().zip(b.lines()).find(|(x, y)| x != y).map(|(x, y)| format!("original: {x}\nreconstituted: {y}")).unwrap_or_else(|| "different number of lines".into());
                return Err(format!("grammar queries differ after the round trip:\n{d}"));
            }
            let (a, b) = (dump_table(&grm, n, &st, false), dump_table(pd.grm(), n, pd.stable(), false));
            queries += a.lines().count() as u64;
            if a != b {
                let d = a.lines().zip(b.lines()).find(|(x, y)| x != y).map(|(x, y)| format!("original: {x}\nreconstituted: {y}")).unwrap_or_else(|| "different number of lines".into());
                return Err(format!("table queries differ after the round trip:\n{d}"));
            }
            for (toks_by_name, recov) in $inputs.iter() {
                let toks: Vec<usize> = toks_by_name.iter().filter_map(|nm: &String| grm.token_idx(nm).map(|t| usize::from(t))).collect();
                let (a, b) = (parse_dump(&grm, &st, &toks, *recov), parse_dump(pd.grm(), pd.stable(), &toks, *recov));
                queries += 1;
                if a != b {
                    return Err(format!("parse results differ after the round trip on input {toks_by_name:?} (recovery {recov}):\noriginal: {a}\nreconstituted: {b}"));
                }
            }
            Ok((gb.len() + sb.len(), queries))
        })()
    }};
}

impl Check for C14 {
    fn id(&self) -> &'static str {
        "C14"
    }
    fn ncases(&self, tier: Tier) -> u64 {
        tier.sz(400, 6000)
    }
    fn rule(&self) -> &'static str {
        "one decorated abstract grammar per case (optional declarations present/absent, non-ASCII names, %epp, action text, precedences, %avoid_insert, conflicts or none, all syntaxes) x storage {u8,u16,u32} x {fixed, variable} integer encoding: serialise with lrpar::ctbuilder::wincode exactly as the generated parser does, _reconstitute, and compare a canonical dump of every public query (all grammar accessors; every state x token action, state x rule goto, state_actions, state_shifts, core_reduces, reduce_only_state, start_state, conflict lists) and the parse results of 8 inputs (recovery off and on). Non-trivial = grammar uses >= 3 optional declarations; distinct by (grammar, width, format)."
    }
    fn assumptions(&self) -> Vec<&'static str> {
        vec!["with recovery on, parse results are compared up to the first error's repair set (the choice among equal-rank repairs is unspecified)"]
    }
    fn floor(&self, tier: Tier) -> u64 {
        tier.sz(600, 8000)
    }
    fn required_counters(&self, _t: Tier) -> Vec<&'static str> {
        vec!["round_trips", "bytes_serialised", "queries_compared", "grammars_with_conflicts", "grammars_without_conflicts", "grammars_with_avoid_insert"]
    }
    fn run_case(&self, seed: u64, idx: u64, _tier: Tier) -> CaseOut {
        let mut out = CaseOut::new();
        let mut rng = Rng::derive(seed, "C14", idx, 0);
        let mut ag = gen_mixed(&mut rng, true);
        decorate(&mut ag, &mut rng);
        let rd = render_fancy(&ag, &mut rng, &YOpts::plain());
        let src = rd.text.clone();
        // inputs by token name
        let mut inputs: Vec<(Vec<String>, bool)> = vec![];
        let parseable = !has_derivation_cycle(&ag) && {
            // exclude tables with endless reduction loops (u32 build)
            match build_grm_src(&ag, src.clone()) {
                Ok(b) => match guarded(|| b.table()) {
                    Ok(Ok((sg, st))) => !crate::lrx::table_has_reduce_loop(&b.grm, usize::from(sg.all_states_len()), &st),
                    _ => false,
                },
                Err(_) => false,
            }
        };
        if parseable {
            for k in 0..8 {
                let d = rng.range(1, 6);
                let s = sample_sentence(&ag, &mut rng, ag.start, d).unwrap_or_default();
                let s = if k % 2 == 1 { mutate(&mut rng, &s, ag.tokens.len(), 1) } else { s };
                if s.len() <= 20 {
                    inputs.push((s.iter().map(|t| ag.tokens[*t].name.clone()).collect(), k % 4 >= 2));
                }
            }
        }
        let gh = hash_str(&ag.normal_form());
        let mut conflicts_seen = None;
        macro_rules! one {
            ($t:ty, $tn:expr, $cfg:expr, $fmt:expr) => {{
                out.evals += 1;
                match guarded(|| roundtrip!($t, $cfg, &ag, &src, &inputs)) {
                    Err(p) => {
                        if p.contains("not big enough") {
                            out.count("width_refused", 1);
                        } else {
                            out.violate("panic", &[], format!("{} / {}: panicked: {p}", $tn, $fmt), json!({"grammar": src, "kind": ag.kind.name()}));
                        }
                    }
                    Ok(Err(e)) if e.starts_with("SKIP") => {
                        out.count("from_yacc_err", 1);
                    }
                    Ok(Err(e)) => out.violate("round-trip-differs", &[], format!("{} / {}: {e}", $tn, $fmt), json!({"grammar": src, "kind": ag.kind.name()})),
                    Ok(Ok((bytes, q))) => {
                        out.count("round_trips", 1);
                        out.count("bytes_serialised", bytes as u64);
                        out.count("queries_compared", q);
                        out.count(&format!("matrix_{}_{}", $tn, $fmt), 1);
                        if rd.constructs.len() >= 3 {
                            out.nontrivial(gh ^ hash_str(&format!("{}{}", $tn, $fmt)));
                        }
                    }
                }
            }};
        }
        one!(u8, "u8", wincode::config::Configuration::default().with_fixint_encoding(), "fixed");
        one!(u8, "u8", wincode::config::Configuration::default().with_varint_encoding(), "variable");
        one!(u16, "u16", wincode::config::Configuration::default().with_fixint_encoding(), "fixed");
        one!(u16, "u16", wincode::config::Configuration::default().with_varint_encoding(), "variable");
        one!(u32, "u32", wincode::config::Configuration::default().with_fixint_encoding(), "fixed");
        one!(u32, "u32", wincode::config::Configuration::default().with_varint_encoding(), "variable");
        if let Ok(b) = build_grm_src(&ag, src.clone()) {
            if let Ok(Ok((_, st))) = guarded(|| b.table()) {
                conflicts_seen = Some(st.conflicts().is_some());
            }
        }
        match conflicts_seen {
            Some(true) => out.count("grammars_with_conflicts", 1),
            Some(false) => out.count("grammars_without_conflicts", 1),
            None => {}
        }
        if !ag.avoid_insert.is_empty() {
            out.count("grammars_with_avoid_insert", 1);
        }
        if idx % 61 == 0 {
            out.sample = Some(json!({"grammar": src, "kind": ag.kind.name(), "constructs": rd.constructs, "inputs": inputs.iter().take(2).collect::<Vec<_>>()}));
        }
        out
    }
}

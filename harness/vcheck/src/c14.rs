//! C14 — serialised grammars and tables come back observationally identical.

use crate::ag::*;
use crate::dump::*;
use crate::frame::*;
use crate::refs::*;
use crate::rng::{hash_str, Rng};
use crate::yrender::*;
use cfgrammar::yacc::YaccGrammar;
use lrpar::ctbuilder::{_reconstitute, wincode};
use lrtable::{from_yacc, Minimiser};
use serde_json::json;

pub struct C14;

/// One round trip for a storage type and an encoding; returns Err(description) on a difference.
macro_rules! roundtrip {
    ($t:ty, $cfg:expr, $ag:expr, $src:expr, $inputs:expr) => {{
        (|| -> Result<(usize, u64), String> {
            let grm = YaccGrammar::<$t>::new_with_storaget($ag.kind.yacckind(), $src).map_err(|e| format!("grammar rejected: {e:?}"))?;
            let (sg, st) = from_yacc(&grm, Minimiser::Pager).map_err(|e| format!("SKIP from_yacc: {e}"))?;
            let n = usize::from(sg.all_states_len());
            let cfg = $cfg;
            let gb = wincode::config::serialize(&grm, cfg).map_err(|e| format!("serialising the grammar failed: {e:?}"))?;
            let sb = wincode::config::serialize(&st, cfg).map_err(|e| format!("serialising the table failed: {e:?}"))?;
            let pd = _reconstitute::<_, $t>(&gb, &sb, cfg);
            let mut queries = 0u64;
            let (a, b) = (dump_grm(&grm), dump_grm(pd.grm()));
            queries += a.lines().count() as u64;
            if a != b {
                let d = a.lines().zip(b.lines()).find(|(x, y)| x != y).map(|(x, y)| format!("original: {x}\nreconstituted: {y}")).unwrap_or_else(|| "different number of lines".into());
                return Err(format!("grammar queries differ after the round trip:\n{d}"));
            }
            let (a, b) = (dump_table(&grm, n, &st, false), dump_table(pd.grm(), n, pd.stable(), false));
            queries += a.lines().count() as u64;
            if a != b {
                let d = a.lines().zip(b.lines()).find(|(x, y)| x != y).map(|(x, y)| format!("original: {x}\nreconstituted: {y}")).unwrap_or_else(|| "different number of lines".into());
                return Err(format!("table queries differ after the round trip:\n{d}"));
            }
            for (toks_by_name, recov) in $inputs.iter() {
                let toks: Vec<usize> = toks_by_name.iter().filter_map(|nm: &String| grm.token_idx(nm).map(|t| usize::from(t))).collect();
                let (a, b) = (parse_dump(&grm, &st, &toks, *recov), parse_dump(pd.grm(), pd.stable(), &toks, *recov));
                queries += 1;
                if a != b {
                    return Err(format!("parse results differ after the round trip on input {toks_by_name:?} (recovery {recov}):\noriginal: {a}\nreconstituted: {b}"));
                }
            }
            Ok((gb.len() + sb.len(), queries))
        })()
    }};
}

/// Build `src` with the real CTParserBuilder, scrape `__GRM_DATA`, `__STABLE_DATA` and
/// `__SERIALISATION_FORMAT` out of the generated module, reconstitute them as the module's own
/// `__lrpar_parser_data` does (the configuration is chosen by the recorded tag, not by what we asked
/// for) and compare every query with the grammar and table built directly from the same text.
fn generated_module_roundtrip(ag: &AG, src: &str, inputs: &[(Vec<String>, bool)], fixed: bool, idx: u64) -> Result<u64, String> {
    use lrlex::DefaultLexerTypes;
    use lrpar::CTParserBuilder;
    if matches!(ag.kind, AKind::Eco) {
        // the compile-time builder documents that it does not support Eco grammars
        return Err("SKIP Eco".into());
    }
    let grm = YaccGrammar::<u32>::new_with_storaget(ag.kind.yacckind(), src).map_err(|e| format!("SKIP grammar rejected: {e:?}"))?;
    let (sg, st) = from_yacc(&grm, Minimiser::Pager).map_err(|e| format!("SKIP from_yacc: {e}"))?;
    let n = usize::from(sg.all_states_len());
    let dir = format!("{VERIF_DIR}/work/c14-{}-{idx}-{}", std::process::id(), fixed as u8);
    std::fs::remove_dir_all(&dir).ok();
    std::fs::create_dir_all(&dir).map_err(|e| e.to_string())?;
    let gp = format!("{dir}/g.y");
    let po = format!("{dir}/g.y.rs");
    std::fs::write(&gp, src).map_err(|e| e.to_string())?;
    let built = CTParserBuilder::<DefaultLexerTypes<u32>>::new()
        .yacckind(ag.kind.yacckind())
        .grammar_path(&gp)
        .output_path(&po)
        .error_on_conflicts(false)
        .warnings_are_errors(false)
        .show_warnings(false)
        .serialisation_format(if fixed { lrpar::SerialisationFormat::FixedSizeInteger } else { lrpar::SerialisationFormat::VariableSizedInteger })
        .build()
        .map(|_| ())
        .map_err(|e| format!("SKIP builder refused: {}", e.to_string().lines().next().unwrap_or("")));
    let module = std::fs::read_to_string(&po);
    std::fs::remove_dir_all(&dir).ok();
    built?;
    let module = module.map_err(|e| format!("generated module unreadable: {e}"))?;
    let bytes_of = |name: &str| -> Result<Vec<u8>, String> {
        let key = format!("const {name}: &[u8] = &[");
        let a = module.find(&key).ok_or_else(|| format!("{name} not found in the generated module"))? + key.len();
        let b = a + module[a..].find("];").ok_or_else(|| format!("{name}: unterminated array"))?;
        module[a..b].split(',').map(|x| x.trim()).filter(|x| !x.is_empty()).map(|x| x.trim_end_matches("u8").parse::<u8>().map_err(|e| format!("{name}: bad element {x:?}: {e}"))).collect()
    };
    let gb = bytes_of("__GRM_DATA")?;
    let sb = bytes_of("__STABLE_DATA")?;
    let tag_at = module.find("const __SERIALISATION_FORMAT").ok_or("format tag not found in the generated module")?;
    let tag_line = module[tag_at..].split(';').next().unwrap_or("");
    let tag_fixed = if tag_line.contains("FixedSizeInteger") {
        true
    } else if tag_line.contains("VariableSizedInteger") {
        false
    } else {
        return Err(format!("unrecognised format tag: {tag_line}"));
    };
    let pd = if tag_fixed { _reconstitute::<_, u32>(&gb, &sb, wincode::config::Configuration::default().with_fixint_encoding()) } else { _reconstitute::<_, u32>(&gb, &sb, wincode::config::Configuration::default().with_varint_encoding()) };
    let mut queries = 0u64;
    let (a, b) = (dump_grm(&grm), dump_grm(pd.grm()));
    queries += a.lines().count() as u64;
    if a != b {
        let d = a.lines().zip(b.lines()).find(|(x, y)| x != y).map(|(x, y)| format!("built directly: {x}\nfrom the generated module: {y}")).unwrap_or_else(|| "different number of lines".into());
        return Err(format!("grammar queries differ:\n{d}"));
    }
    let (a, b) = (dump_table(&grm, n, &st, false), dump_table(pd.grm(), n, pd.stable(), false));
    queries += a.lines().count() as u64;
    if a != b {
        let d = a.lines().zip(b.lines()).find(|(x, y)| x != y).map(|(x, y)| format!("built directly: {x}\nfrom the generated module: {y}")).unwrap_or_else(|| "different number of lines".into());
        return Err(format!("table queries differ:\n{d}"));
    }
    for (toks_by_name, recov) in inputs.iter() {
        let toks: Vec<usize> = toks_by_name.iter().filter_map(|nm: &String| grm.token_idx(nm).map(usize::from)).collect();
        let (a, b) = (parse_dump(&grm, &st, &toks, *recov), parse_dump(pd.grm(), pd.stable(), &toks, *recov));
        queries += 1;
        if a != b {
            return Err(format!("parse results differ on input {toks_by_name:?} (recovery {recov}):\nbuilt directly: {a}\nfrom the generated module: {b}"));
        }
    }
    Ok(queries)
}

impl Check for C14 {
    fn id(&self) -> &'static str {
        "C14"
    }
    fn ncases(&self, tier: Tier) -> u64 {
        tier.sz(1600, 30000)
    }
    fn rule(&self) -> &'static str {
        "one decorated abstract grammar per case (every 16th is a grammar with one production of 254-1000 symbols, every 256th one with 300-400 rules / 1200+ states and three tokens; optional declarations present/absent, non-ASCII names, %epp, action text, precedences, %avoid_insert, conflicts or none, all syntaxes) x storage {u8,u16,u32} x {fixed, variable} integer encoding: serialise with lrpar::ctbuilder::wincode exactly as the generated parser does, _reconstitute, and compare a canonical dump of every public query (all grammar accessors; every state x token action, state x rule goto, state_actions, state_shifts, core_reduces, reduce_only_state, start_state, conflict lists) and the parse results of 8 inputs (recovery off and on); every fourth grammar additionally goes through CTParserBuilder in both formats and the byte arrays and format tag scraped from the generated module are reconstituted the way the module itself does and compared with the directly built grammar/table. Non-trivial = grammar uses >= 3 optional declarations; distinct by (grammar, width, format)."
    }
    fn assumptions(&self) -> Vec<&'static str> {
        vec!["with recovery on, parse results are compared up to the first error's repair set (the choice among equal-rank repairs is unspecified)"]
    }
    fn floor(&self, tier: Tier) -> u64 {
        tier.sz(1200, 16000)
    }
    fn required_counters(&self, _t: Tier) -> Vec<&'static str> {
        vec!["round_trips", "bytes_serialised", "queries_compared", "grammars_with_conflicts", "grammars_without_conflicts", "grammars_with_avoid_insert", "generated_modules_reconstituted", "long_production_grammars", "many_state_grammars"]
    }
    fn sanitizer_leg(&self, tier: Tier, _seed: u64) -> Option<Leg> {
        // the serialise -> reconstitute round trip is where grmtools' (all safe) code hands its data to
        // dependency `unsafe` (wincode's readers/writers, vob, sparsevec): run it under Miri
        if tier != Tier::Thorough {
            return None;
        }
        Some(run_miri_leg("OK roundtrip", 6, 1, std::time::Duration::from_secs(1500)))
    }
    fn run_case(&self, seed: u64, idx: u64, _tier: Tier) -> CaseOut {
        let mut out = CaseOut::new();
        let mut rng = Rng::derive(seed, "C14", idx, 0);
        let mut ag = if idx % 16 == 3 {
            // a production around the 255/256-symbol boundary (and one well past it); u8 refuses it
            out.count("long_production_grammars", 1);
            let mut g = AG::new(AKind::OriginalGeneric, "long-production");
            let s_ = g.rule("S");
            let a_ = g.rule("A");
            let ts: Vec<usize> = ["a", "b", "c"].iter().map(|t| g.tok(t)).collect();
            let n = *rng.pick(&[254usize, 255, 256, 257, 300, 1000]);
            let syms: Vec<ASym> = (0..n).map(|i| if i % 7 == 3 { ASym::R(a_) } else { ASym::T(ts[rng.below(3)]) }).collect();
            g.add_prod(s_, syms);
            g.add_prod(s_, vec![ASym::T(ts[0])]);
            g.add_prod(a_, vec![]);
            g
        } else if idx % 256 == 7 {
            // many states and productions, few tokens: the tables' bit vectors (states x productions,
            // states x tokens) are large and almost empty, so their in-memory size far exceeds their
            // size in the serialised (variable-width) data
            out.count("many_state_grammars", 1);
            let mut g = AG::new(AKind::OriginalGeneric, "many-states");
            let n = *rng.pick(&[300usize, 400]);
            let rules: Vec<usize> = (0..n).map(|i| g.rule(&format!("R{i}"))).collect();
            let (ta, tb, tc) = (g.tok("a"), g.tok("b"), g.tok("c"));
            for i in 0..n {
                if i + 1 < n {
                    g.add_prod(rules[i], vec![ASym::T(ta), ASym::R(rules[i + 1]), ASym::T(tb)]);
                }
                g.add_prod(rules[i], vec![ASym::T(tc)]);
            }
            g
        } else {
            gen_mixed(&mut rng, true)
        };
        let special_family = idx % 16 == 3 || idx % 256 == 7;
        if !special_family {
            decorate(&mut ag, &mut rng);
        }
        let _ = &mut ag;
        let rd = render_fancy(&ag, &mut rng, &YOpts::plain());
        let src = rd.text.clone();
        // inputs by token name
        let mut inputs: Vec<(Vec<String>, bool)> = vec![];
        let parseable = !has_derivation_cycle(&ag) && {
            // exclude tables with endless reduction loops (u32 build)
            match build_grm_src(&ag, src.clone()) {
                Ok(b) => match guarded(|| b.table()) {
                    Ok(Ok((sg, st))) => !crate::lrx::table_has_reduce_loop(&b.grm, usize::from(sg.all_states_len()), &st),
                    _ => false,
                },
                Err(_) => false,
            }
        };
        if parseable {
            for k in 0..8 {
                let d = rng.range(1, 6);
                let s = sample_sentence(&ag, &mut rng, ag.start, d).unwrap_or_default();
                let s = if k % 2 == 1 { mutate(&mut rng, &s, ag.tokens.len(), 1) } else { s };
                if s.len() <= 20 {
                    inputs.push((s.iter().map(|t| ag.tokens[*t].name.clone()).collect(), k % 4 >= 2));
                }
            }
        }
        let gh = hash_str(&ag.normal_form());
        let mut conflicts_seen = None;
        macro_rules! one {
            ($t:ty, $tn:expr, $cfg:expr, $fmt:expr) => {{
                out.evals += 1;
                match guarded(|| roundtrip!($t, $cfg, &ag, &src, &inputs)) {
                    Err(p) => {
                        if p.contains("not big enough") {
                            out.count("width_refused", 1);
                        } else {
                            out.violate("panic", &[], format!("{} / {}: panicked: {p}", $tn, $fmt), json!({"grammar": src, "kind": ag.kind.name()}));
                        }
                    }
                    Ok(Err(e)) if e.starts_with("SKIP") => {
                        out.count("from_yacc_err", 1);
                    }
                    Ok(Err(e)) => out.violate("round-trip-differs", &[], format!("{} / {}: {e}", $tn, $fmt), json!({"grammar": src, "kind": ag.kind.name()})),
                    Ok(Ok((bytes, q))) => {
                        out.count("round_trips", 1);
                        out.count("bytes_serialised", bytes as u64);
                        out.count("queries_compared", q);
                        out.count(&format!("matrix_{}_{}", $tn, $fmt), 1);
                        if rd.constructs.len() >= 3 {
                            out.nontrivial(gh ^ hash_str(&format!("{}{}", $tn, $fmt)));
                        }
                    }
                }
            }};
        }
        // (the many-state family is built once per width class only: u8/u16 would refuse or repeat it)
        if idx % 256 != 7 {
        one!(u8, "u8", wincode::config::Configuration::default().with_fixint_encoding(), "fixed");
        one!(u8, "u8", wincode::config::Configuration::default().with_varint_encoding(), "variable");
        one!(u16, "u16", wincode::config::Configuration::default().with_fixint_encoding(), "fixed");
        one!(u16, "u16", wincode::config::Configuration::default().with_varint_encoding(), "variable");
        one!(u32, "u32", wincode::config::Configuration::default().with_fixint_encoding(), "fixed");
        }
        one!(u32, "u32", wincode::config::Configuration::default().with_varint_encoding(), "variable");
        if let Ok(b) = build_grm_src(&ag, src.clone()) {
            if let Ok(Ok((_, st))) = guarded(|| b.table()) {
                conflicts_seen = Some(st.conflicts().is_some());
            }
        }
        // ---- through the builder: what a generated parser module really carries. Every fourth case the
        // grammar is put through CTParserBuilder (both formats), the byte arrays and the format tag are read
        // back from the generated module and reconstituted the way the module's own start-up code does.
        if idx % 4 == 0 || idx % 256 == 7 {
            for fixed in [false, true] {
                out.evals += 1;
                match guarded(|| generated_module_roundtrip(&ag, &src, &inputs, fixed, idx)) {
                    Err(p) => out.violate("panic", &["generated-module"], format!("generated module ({}): panicked: {p}", if fixed { "fixed" } else { "variable" }), json!({"grammar": src, "kind": ag.kind.name()})),
                    Ok(Err(e)) if e.starts_with("SKIP") => out.count("generated_module_builder_refusals", 1),
                    Ok(Err(e)) => out.violate("round-trip-differs", &["generated-module"], format!("generated module ({}): {e}", if fixed { "fixed" } else { "variable" }), json!({"grammar": src, "kind": ag.kind.name()})),
                    Ok(Ok(q)) => {
                        out.count("generated_modules_reconstituted", 1);
                        out.count("queries_compared", q);
                    }
                }
            }
        }
        match conflicts_seen {
            Some(true) => out.count("grammars_with_conflicts", 1),
            Some(false) => out.count("grammars_without_conflicts", 1),
            None => {}
        }
        if !ag.avoid_insert.is_empty() {
            out.count("grammars_with_avoid_insert", 1);
        }
        if idx % 61 == 0 {
            out.sample = Some(json!({"grammar": src, "kind": ag.kind.name(), "constructs": rd.constructs, "inputs": inputs.iter().take(2).collect::<Vec<_>>()}));
        }
        out
    }
}

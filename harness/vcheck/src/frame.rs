//! Execution framework: sharded worker processes, event log, watchdog, three-valued verdicts,
//! evidence files, known findings, replay.

use serde_json::{json, Map, Value};
use std::{
    collections::{BTreeMap, HashSet},
    io::{BufRead, BufReader, Write},
    panic::{catch_unwind, AssertUnwindSafe},
    process::{Child, Command, Stdio},
    sync::{Arc, Mutex},
    time::{Duration, Instant},
};

pub const VERIF_DIR: &str = "/verif";

#[derive(Clone, Copy, Debug, PartialEq, Eq)]
pub enum Tier {
    Quick,
    Thorough,
}
impl Tier {
    pub fn name(self) -> &'static str {
        match self {
            Tier::Quick => "quick",
            Tier::Thorough => "thorough",
        }
    }
    pub fn parse(s: &str) -> Option<Tier> {
        match s {
            "quick" => Some(Tier::Quick),
            "thorough" => Some(Tier::Thorough),
            _ => None,
        }
    }
    /// Pick a size by tier.
    pub fn sz(self, q: u64, t: u64) -> u64 {
        match self {
            Tier::Quick => q,
            Tier::Thorough => t,
        }
    }
}

/// One observed violation inside a case.
#[derive(Clone, Debug)]
pub struct Violation {
    /// symptom class, e.g. "span-mismatch", "panic", "missing-repair"
    pub kind: String,
    /// machine-checked predicates that hold for this concrete case (used to match known findings)
    pub tags: Vec<String>,
    /// human-readable statement of what failed
    pub what: String,
    /// the materialised case (grammar text, inputs, observation)
    pub detail: Value,
}

/// What a worker reports for one case.
#[derive(Default, Debug)]
pub struct CaseOut {
    pub evals: u64,
    /// keys (hashes) of the distinct non-trivial sub-cases this case evaluated
    pub nontrivial: Vec<u64>,
    pub counters: BTreeMap<String, u64>,
    pub sample: Option<Value>,
    pub violations: Vec<Violation>,
    pub inconclusive: Vec<String>,
}

impl CaseOut {
    pub fn new() -> Self {
        Self::default()
    }
    pub fn count(&mut self, k: &str, n: u64) {
        *self.counters.entry(k.to_string()).or_insert(0) += n;
    }
    pub fn max(&mut self, k: &str, n: u64) {
        let e = self.counters.entry(format!("max_{k}")).or_insert(0);
        if n > *e {
            *e = n;
        }
    }
    pub fn min(&mut self, k: &str, n: u64) {
        let e = self.counters.entry(format!("min_{k}")).or_insert(u64::MAX);
        if n < *e {
            *e = n;
        }
    }
    pub fn nontrivial(&mut self, key: u64) {
        self.nontrivial.push(key);
    }
    pub fn violate(&mut self, kind: &str, tags: &[&str], what: String, detail: Value) {
        // keep the log bounded: at most 20 violations per case
        if self.violations.len() < 20 {
            self.violations.push(Violation {
                kind: kind.to_string(),
                tags: tags.iter().map(|s| s.to_string()).collect(),
                what,
                detail,
            });
        }
    }
    pub fn inconclusive(&mut self, why: &str) {
        if self.inconclusive.len() < 50 {
            self.inconclusive.push(why.to_string());
        }
        self.count("inconclusive", 1);
        // per-reason tally (reasons are short fixed strings, sometimes followed by ':' and details)
        let key = format!("inconclusive[{}]", why.split(':').next().unwrap_or(why).chars().take(90).collect::<String>());
        self.count(&key, 1);
    }
}

pub trait Check: Sync {
    fn id(&self) -> &'static str;
    fn level(&self) -> &'static str {
        "exploration"
    }
    /// number of cases for the tier (case indices 0..n)
    fn ncases(&self, tier: Tier) -> u64;
    /// run one case
    fn run_case(&self, seed: u64, idx: u64, tier: Tier) -> CaseOut;
    /// rule text for the evidence file
    fn rule(&self) -> &'static str;
    fn assumptions(&self) -> Vec<&'static str> {
        vec![]
    }
    /// minimum number of distinct non-trivial cases below which the run is a broken check
    fn floor(&self, tier: Tier) -> u64 {
        let _ = tier;
        2
    }
    /// named counters that must be non-zero for the run to count (no vacuous pass)
    fn required_counters(&self, _tier: Tier) -> Vec<&'static str> {
        vec![]
    }
    /// per-case wall-clock watchdog (seconds)
    fn case_cap_s(&self, _tier: Tier) -> u64 {
        40
    }
    /// does the property promise termination (a confirmed hang is then a violation)?
    fn hang_is_violation(&self) -> bool {
        false
    }
    /// extra keys merged into coverage by the driver (e.g. exhaustive flag), given aggregated counters
    fn extra_coverage(&self, _tier: Tier, _counters: &BTreeMap<String, u64>) -> Map<String, Value> {
        Map::new()
    }
    fn max_workers(&self) -> usize {
        16
    }
    /// An additional layer run by the driver after the cases (thorough tier): the workload under an
    /// undefined-behaviour / data-race interpreter. Never the deciding oracle of a property.
    fn sanitizer_leg(&self, _tier: Tier, _seed: u64) -> Option<Leg> {
        None
    }
}

/// Outcome of a sanitizer leg.
pub struct Leg {
    pub coverage: Value,
    pub violations: Vec<(String, String, Value)>,
    pub inconclusive: Vec<String>,
}

/// The case index under which a sanitizer-leg report is filed (and which `--replay` maps back to the leg).
pub const LEG_CASE: u64 = u64::MAX;

/// Run the miri14 crate (`/verif/harness/miri14`) under `cargo +nightly miri run`, with `seeds`
/// scheduler seeds, and turn its output into a Leg: `want_prefix` lines are what the leg must have
/// observed; an interpreter report is a violation; an interpreter that cannot be started, or that
/// does not finish within `cap`, is inconclusive.
pub fn run_miri_leg(want_prefix: &str, want_per_seed: u64, seeds: u64, cap: Duration) -> Leg {
    let dir = format!("{VERIF_DIR}/harness/miri14");
    let t0 = Instant::now();
    let mut cmd = Command::new("cargo");
    cmd.current_dir(&dir)
        .args(["+nightly", "miri", "run", "--offline"])
        .env("CARGO_NET_OFFLINE", "true")
        .env("MIRIFLAGS", format!("-Zmiri-disable-isolation -Zmiri-many-seeds=0..{seeds}"))
        .stdin(Stdio::null())
        .stdout(Stdio::piped())
        .stderr(Stdio::piped());
    std::fs::copy("/repo/Cargo.lock", format!("{dir}/Cargo.lock")).ok();
    let child = match cmd.spawn() {
        Ok(c) => c,
        Err(e) => return Leg { coverage: json!({"tool": "miri", "ran": false}), violations: vec![], inconclusive: vec![format!("miri leg: cargo could not be started: {e}")] },
    };
    let pid = child.id();
    let (tx, rx) = std::sync::mpsc::channel();
    std::thread::spawn(move || {
        tx.send(child.wait_with_output()).ok();
    });
    let out = match rx.recv_timeout(cap) {
        Ok(Ok(o)) => o,
        Ok(Err(e)) => return Leg { coverage: json!({"tool": "miri", "ran": false}), violations: vec![], inconclusive: vec![format!("miri leg: {e}")] },
        Err(_) => {
            Command::new("kill").arg("-9").arg(pid.to_string()).status().ok();
            return Leg { coverage: json!({"tool": "miri", "ran": false, "timed_out_after_s": cap.as_secs()}), violations: vec![], inconclusive: vec![format!("miri leg: no result within {}s", cap.as_secs())] };
        }
    };
    let stdout = String::from_utf8_lossy(&out.stdout).to_string();
    let stderr = String::from_utf8_lossy(&out.stderr).to_string();
    let ok_lines: Vec<&str> = stdout.lines().filter(|l| l.starts_with("OK ")).collect();
    let observed = ok_lines.iter().filter(|l| l.starts_with(want_prefix)).count() as u64;
    let cov = json!({"tool": "cargo +nightly miri run (undefined-behaviour and data-race interpreter)", "ran": true, "scheduler_seeds": seeds, "steps_observed": ok_lines.len(), "steps_observed_for_this_property": observed, "sample_steps": ok_lines.iter().take(8).collect::<Vec<_>>(), "wall_s": t0.elapsed().as_secs_f64(), "exit_ok": out.status.success()});
    let mut leg = Leg { coverage: cov, violations: vec![], inconclusive: vec![] };
    let report = stderr.contains("Undefined Behavior") || stderr.contains("Data race detected") || stderr.contains("panicked at");
    if report {
        let first = stderr.lines().find(|l| l.contains("Undefined Behavior") || l.contains("Data race") || l.contains("panicked at")).unwrap_or("").to_string();
        leg.violations.push(("sanitizer-report".into(), format!("miri: {first}"), json!({"stderr_tail": stderr.chars().rev().take(4000).collect::<String>().chars().rev().collect::<String>(), "stdout": stdout})));
    } else if !out.status.success() || observed < want_per_seed * seeds {
        // could not build / run (toolchain missing, sysroot not buildable offline, ...): not a verdict
        leg.inconclusive.push(format!("miri leg did not complete (exit ok = {}, {} of {} expected steps): {}", out.status.success(), observed, want_per_seed * seeds, stderr.lines().rev().find(|l| l.contains("error")).unwrap_or("").chars().take(300).collect::<String>()));
    }
    leg
}

// ---------------------------------------------------------------------------------------------
// panic capture

thread_local! {
    static LAST_PANIC: std::cell::RefCell<Option<String>> = const { std::cell::RefCell::new(None) };
}

pub fn install_panic_hook() {
    std::panic::set_hook(Box::new(|info| {
        let msg = if let Some(s) = info.payload().downcast_ref::<&str>() {
            s.to_string()
        } else if let Some(s) = info.payload().downcast_ref::<String>() {
            s.clone()
        } else {
            "<non-string panic>".to_string()
        };
        let loc = info
            .location()
            .map(|l| format!("{}:{}", l.file(), l.line()))
            .unwrap_or_default();
        LAST_PANIC.with(|p| *p.borrow_mut() = Some(format!("{msg} @ {loc}")));
    }));
}

/// Run `f`, converting a panic into `Err(message @ file:line)`.
pub fn guarded<T>(f: impl FnOnce() -> T) -> Result<T, String> {
    LAST_PANIC.with(|p| *p.borrow_mut() = None);
    match catch_unwind(AssertUnwindSafe(f)) {
        Ok(v) => Ok(v),
        Err(_) => Err(LAST_PANIC
            .with(|p| p.borrow_mut().take())
            .unwrap_or_else(|| "<panic>".to_string())),
    }
}

/// Is the panic location inside the code under test (as opposed to the harness)?
pub fn panic_in_repo(msg: &str) -> bool {
    msg.contains("/repo/") || !msg.contains("vcheck/src")
}

// ---------------------------------------------------------------------------------------------
// progress trace (only active when a case is re-run alone): lets a case say what it is about to
// do, so that a hang can be attributed to a concrete input

pub fn trace_enabled() -> bool {
    std::env::var_os("VCHECK_TRACE_FILE").is_some()
}

pub fn trace(what: impl FnOnce() -> String) {
    if let Some(p) = std::env::var_os("VCHECK_TRACE_FILE") {
        std::fs::write(p, what()).ok();
    }
}

// ---------------------------------------------------------------------------------------------
// worker

fn case_to_json(idx: u64, out: &CaseOut) -> Value {
    json!({
        "i": idx,
        "evals": out.evals,
        "nt": out.nontrivial,
        "ctr": out.counters,
        "sample": out.sample,
        "inc": out.inconclusive,
        "viol": out.violations.iter().map(|v| json!({
            "kind": v.kind, "tags": v.tags, "what": v.what, "detail": v.detail
        })).collect::<Vec<_>>(),
    })
}

pub fn worker_main(check: &dyn Check, tier: Tier, seed: u64, start: u64, step: u64, only: bool) {
    install_panic_hook();
    let n = check.ncases(tier);
    let stdout = std::io::stdout();
    let mut idx = start;
    while idx < n {
        {
            let mut o = stdout.lock();
            writeln!(o, "S {idx}").ok();
            o.flush().ok();
        }
        let out = match guarded(|| check.run_case(seed, idx, tier)) {
            Ok(o) => o,
            Err(msg) => {
                let mut o = CaseOut::new();
                o.evals = 1;
                if panic_in_repo(&msg) {
                    o.violate(
                        "panic",
                        &[],
                        format!("code under test panicked: {msg}"),
                        json!({"panic": msg, "case_index": idx}),
                    );
                } else {
                    o.violate(
                        "harness-panic",
                        &["harness"],
                        format!("harness panicked: {msg}"),
                        json!({"panic": msg, "case_index": idx}),
                    );
                }
                o
            }
        };
        {
            let mut o = stdout.lock();
            writeln!(o, "E {}", case_to_json(idx, &out)).ok();
            o.flush().ok();
        }
        if only {
            break;
        }
        idx += step;
    }
}

// ---------------------------------------------------------------------------------------------
// driver

struct WorkerState {
    child: Child,
    gen: u64,
    /// the next case index this worker will report on (start of its remaining shard)
    next: u64,
    open: Option<(u64, Instant)>,
    done: bool,
}

#[derive(Default)]
struct Agg {
    evals: u64,
    cases: u64,
    nontrivial: HashSet<u64>,
    counters: BTreeMap<String, u64>,
    samples: Vec<Value>,
    violations: Vec<(u64, Value)>,
    inconclusive: Vec<String>,
    inconclusive_n: u64,
}

impl Agg {
    fn absorb(&mut self, v: &Value) {
        self.cases += 1;
        self.evals += v["evals"].as_u64().unwrap_or(0);
        if let Some(a) = v["nt"].as_array() {
            for k in a {
                if let Some(k) = k.as_u64() {
                    self.nontrivial.insert(k);
                }
            }
        }
        if let Some(m) = v["ctr"].as_object() {
            for (k, n) in m {
                let n = n.as_u64().unwrap_or(0);
                if k.starts_with("max_") {
                    let e = self.counters.entry(k.clone()).or_insert(0);
                    if n > *e {
                        *e = n;
                    }
                } else if k.starts_with("min_") {
                    let e = self.counters.entry(k.clone()).or_insert(u64::MAX);
                    if n < *e {
                        *e = n;
                    }
                } else {
                    *self.counters.entry(k.clone()).or_insert(0) += n;
                }
            }
        }
        if !v["sample"].is_null() && self.samples.len() < 4 {
            self.samples.push(v["sample"].clone());
        }
        if let Some(a) = v["inc"].as_array() {
            for s in a {
                self.inconclusive_n += 1;
                if self.inconclusive.len() < 20 {
                    self.inconclusive.push(s.as_str().unwrap_or("").to_string());
                }
            }
        }
        let idx = v["i"].as_u64().unwrap_or(0);
        if let Some(a) = v["viol"].as_array() {
            for x in a {
                self.violations.push((idx, x.clone()));
            }
        }
    }
}

fn trace_path(id: &str, idx: u64) -> String {
    format!("{VERIF_DIR}/work/trace-{id}-{idx}.txt")
}

fn spawn_worker(id: &str, tier: Tier, seed: u64, start: u64, step: u64, only: bool) -> Child {
    let exe = std::env::current_exe().expect("current_exe");
    let mut cmd = Command::new(exe);
    if only {
        std::fs::create_dir_all(format!("{VERIF_DIR}/work")).ok();
        std::fs::remove_file(trace_path(id, start)).ok();
        cmd.env("VCHECK_TRACE_FILE", trace_path(id, start));
    }
    cmd
        .args([
            "worker",
            id,
            tier.name(),
            &seed.to_string(),
            &start.to_string(),
            &step.to_string(),
            if only { "only" } else { "all" },
        ])
        .stdin(Stdio::null())
        .stdout(Stdio::piped())
        .stderr(Stdio::null())
        .spawn()
        .expect("spawn worker")
}

enum Ev {
    Start(usize, u64, u64),
    End(usize, u64, Value),
    Eof(usize, u64),
}

fn reader_thread(slot: usize, gen: u64, child: &mut Child, tx: std::sync::mpsc::Sender<Ev>) {
    let out = child.stdout.take().unwrap();
    std::thread::spawn(move || {
        let rd = BufReader::new(out);
        for line in rd.lines() {
            let Ok(line) = line else { break };
            if let Some(r) = line.strip_prefix("S ") {
                if let Ok(i) = r.trim().parse::<u64>() {
                    tx.send(Ev::Start(slot, gen, i)).ok();
                }
            } else if let Some(r) = line.strip_prefix("E ") {
                if let Ok(v) = serde_json::from_str::<Value>(r) {
                    tx.send(Ev::End(slot, gen, v)).ok();
                }
            }
        }
        tx.send(Ev::Eof(slot, gen)).ok();
    });
}

/// Run a single case alone in a fresh process with the given cap. Returns Ok(json) | Err("timeout"|"abort").
fn run_alone(id: &str, tier: Tier, seed: u64, idx: u64, cap: Duration) -> Result<Value, &'static str> {
    let mut child = spawn_worker(id, tier, seed, idx, 1, true);
    let out = child.stdout.take().unwrap();
    let res: Arc<Mutex<Option<Value>>> = Arc::new(Mutex::new(None));
    let res2 = res.clone();
    let h = std::thread::spawn(move || {
        for line in BufReader::new(out).lines().map_while(Result::ok) {
            if let Some(r) = line.strip_prefix("E ") {
                if let Ok(v) = serde_json::from_str::<Value>(r) {
                    *res2.lock().unwrap() = Some(v);
                }
            }
        }
    });
    let t0 = Instant::now();
    loop {
        match child.try_wait() {
            Ok(Some(_)) => break,
            Ok(None) => {
                if t0.elapsed() > cap {
                    child.kill().ok();
                    child.wait().ok();
                    h.join().ok();
                    return Err("timeout");
                }
                std::thread::sleep(Duration::from_millis(50));
            }
            Err(_) => break,
        }
    }
    h.join().ok();
    let v = res.lock().unwrap().take();
    v.ok_or("abort")
}

pub struct KnownFinding {
    pub id: String,
    pub status: String,
    pub kind: String,
    pub tags: Vec<String>,
    pub what: String,
}

pub fn load_known(prop: &str) -> Vec<KnownFinding> {
    let p = format!("{VERIF_DIR}/known_findings.json");
    let Ok(s) = std::fs::read_to_string(&p) else {
        return vec![];
    };
    let Ok(v) = serde_json::from_str::<Value>(&s) else {
        eprintln!("known_findings.json does not parse");
        return vec![];
    };
    let mut out = vec![];
    for e in v["findings"].as_array().cloned().unwrap_or_default() {
        if e["property"].as_str() != Some(prop) {
            continue;
        }
        out.push(KnownFinding {
            id: e["id"].as_str().unwrap_or("").to_string(),
            status: e["status"].as_str().unwrap_or("").to_string(),
            kind: e["signature"]["kind"].as_str().unwrap_or("").to_string(),
            tags: e["signature"]["tags"]
                .as_array()
                .map(|a| a.iter().filter_map(|x| x.as_str().map(String::from)).collect())
                .unwrap_or_default(),
            what: e["what"].as_str().unwrap_or("").to_string(),
        });
    }
    out
}

fn matches_known<'a>(known: &'a [KnownFinding], v: &Value) -> Option<&'a KnownFinding> {
    let kind = v["kind"].as_str().unwrap_or("");
    let tags: Vec<&str> = v["tags"]
        .as_array()
        .map(|a| a.iter().filter_map(|x| x.as_str()).collect())
        .unwrap_or_default();
    known.iter().find(|k| {
        k.status == "finding"
            && k.kind == kind
            && !k.tags.is_empty()
            && k.tags.iter().all(|t| tags.contains(&t.as_str()))
    })
}

pub fn driver_main(check: &dyn Check, tier: Tier, seed: u64, replay_idx: Option<u64>) -> i32 {
    let t0 = Instant::now();
    let id = check.id();
    let n = check.ncases(tier);
    let mut agg = Agg::default();
    let cap = Duration::from_secs(check.case_cap_s(tier));
    let mut suspects: Vec<(u64, &'static str)> = vec![];

    if replay_idx.is_none() {
        // stale replay files of earlier runs of this property
        if let Ok(rd) = std::fs::read_dir(format!("{VERIF_DIR}/replays")) {
            for e in rd.flatten() {
                if e.file_name().to_string_lossy().starts_with(&format!("{id}-")) {
                    std::fs::remove_file(e.path()).ok();
                }
            }
        }
    }
    if replay_idx == Some(LEG_CASE) {
        // a sanitizer-leg report is replayed by running the leg again (below)
    } else if let Some(idx) = replay_idx {
        match run_alone(id, tier, seed, idx, cap * 10) {
            Ok(v) => agg.absorb(&v),
            Err(why) => suspects.push((idx, why)),
        }
    } else {
        let nw = (check.max_workers() as u64).min(n).max(1) as usize;
        let step = nw as u64;
        let (tx, rx) = std::sync::mpsc::channel::<Ev>();
        let mut ws: Vec<WorkerState> = Vec::new();
        let mut gen_ctr: u64 = 0;
        for w in 0..nw {
            gen_ctr += 1;
            let mut child = spawn_worker(id, tier, seed, w as u64, step, false);
            reader_thread(w, gen_ctr, &mut child, tx.clone());
            ws.push(WorkerState { child, gen: gen_ctr, next: w as u64, open: None, done: false });
        }
        // (re)start slot `s` at case `next`, or mark it done
        let respawn = |ws: &mut Vec<WorkerState>, s: usize, next: u64, gen_ctr: &mut u64| {
            ws[s].child.kill().ok();
            ws[s].child.wait().ok();
            ws[s].open = None;
            if next < n {
                *gen_ctr += 1;
                let mut child = spawn_worker(id, tier, seed, next, step, false);
                reader_thread(s, *gen_ctr, &mut child, tx.clone());
                ws[s].child = child;
                ws[s].gen = *gen_ctr;
                ws[s].next = next;
            } else {
                ws[s].done = true;
            }
        };
        let mut ended: u64 = 0;
        loop {
            while let Ok(ev) = rx.recv_timeout(Duration::from_millis(100)) {
                match ev {
                    Ev::Start(s, g, i) => {
                        if ws[s].gen == g {
                            ws[s].open = Some((i, Instant::now()));
                        }
                    }
                    Ev::End(s, g, v) => {
                        if ws[s].gen == g {
                            ws[s].open = None;
                            ws[s].next = v["i"].as_u64().unwrap_or(ws[s].next) + step;
                            ended += 1;
                            agg.absorb(&v);
                        }
                    }
                    Ev::Eof(s, g) => {
                        if ws[s].gen != g || ws[s].done {
                            continue;
                        }
                        if let Some((i, _)) = ws[s].open {
                            // died in the middle of case i
                            suspects.push((i, "abort"));
                            respawn(&mut ws, s, i + step, &mut gen_ctr);
                        } else if ws[s].next >= n {
                            ws[s].child.wait().ok();
                            ws[s].done = true;
                        } else {
                            // died between cases without finishing its shard
                            let nx = ws[s].next;
                            suspects.push((nx, "abort"));
                            respawn(&mut ws, s, nx + step, &mut gen_ctr);
                        }
                    }
                }
            }
            // watchdog
            for s in 0..ws.len() {
                if ws[s].done {
                    continue;
                }
                if let Some((i, t)) = ws[s].open {
                    if t.elapsed() > cap {
                        suspects.push((i, "timeout"));
                        respawn(&mut ws, s, i + step, &mut gen_ctr);
                    }
                }
            }
            if ws.iter().all(|w| w.done) {
                break;
            }
            if suspects.len() >= 12 && suspects.len() as u64 * 50 > ended {
                // a dozen cases that did not come back, and more than 2% of the cases so far: something systematic (or a hopelessly loaded
                // machine). Do not spend a watchdog period on each of the remaining cases: stop here, let
                // the first suspects be re-run in isolation below, and say that the run was cut short.
                let left: u64 = ws.iter().filter(|w| !w.done).map(|w| (n.saturating_sub(w.next) + step - 1) / step).sum();
                agg.inconclusive.push(format!("run stopped early after {} cases timed out or aborted; about {left} cases were not run", suspects.len()));
                agg.inconclusive_n += 1;
                break;
            }
        }
        for w in ws.iter_mut() {
            w.child.kill().ok();
            w.child.wait().ok();
        }
    }

    // re-run suspects alone, sequentially, with a 3x cap
    let mut hang_violations: Vec<(u64, String)> = vec![];
    suspects.sort();
    suspects.dedup_by_key(|x| x.0);
    let mut reruns = 0;
    for (idx, why) in &suspects {
        if agg.violations.iter().any(|(i, _)| i == idx) {
            continue;
        }
        reruns += 1;
        if reruns > 4 {
            // bounded effort: the first four suspects decide; the rest are recorded as inconclusive
            agg.inconclusive_n += 1;
            agg.inconclusive.push(format!("case {idx}: suspect ({why}) not re-run in isolation (more than 4 suspects in this run)"));
            continue;
        }
        match run_alone(id, tier, seed, *idx, cap * 3) {
            Ok(v) => {
                agg.absorb(&v);
                *agg.counters.entry("suspects_cleared_in_isolation".into()).or_insert(0) += 1;
            }
            Err("timeout") => {
                if check.hang_is_violation() {
                    let last = std::fs::read_to_string(trace_path(id, *idx)).unwrap_or_default();
                    hang_violations.push((*idx, format!("case {idx} did not return within {}s when run alone (first seen as {why}); last traced step: {}", cap.as_secs() * 3, last.chars().take(600).collect::<String>())));
                } else {
                    agg.inconclusive_n += 1;
                    agg.inconclusive.push(format!("case {idx}: no result within the isolated cap (first seen as {why})"));
                }
            }
            Err(_) => {
                let last = std::fs::read_to_string(trace_path(id, *idx)).unwrap_or_default();
                hang_violations.push((*idx, format!("case {idx} aborted the worker process when run alone (stack overflow / allocation failure / abort), first seen as {why}; last traced step: {}", last.chars().take(600).collect::<String>())));
            }
        }
    }
    for (idx, what) in hang_violations {
        agg.violations.push((
            idx,
            json!({"kind": "no-return", "tags": [], "what": what, "detail": {"case_index": idx}}),
        ));
    }

    // sanitizer leg (after the cases; thorough tier, or the replay of a leg report)
    let mut leg_cov: Option<Value> = None;
    if replay_idx.is_none() || replay_idx == Some(LEG_CASE) {
        if let Some(leg) = check.sanitizer_leg(tier, seed) {
            for (kind, what, detail) in leg.violations {
                agg.violations.push((LEG_CASE, json!({"kind": kind, "tags": ["sanitizer-leg"], "what": what, "detail": detail})));
            }
            for s in leg.inconclusive {
                agg.inconclusive_n += 1;
                agg.inconclusive.push(s);
            }
            leg_cov = Some(leg.coverage);
        }
    }

    // classify violations
    let known = load_known(id);
    let mut printed_known: HashSet<String> = HashSet::new();
    let mut real: Vec<(u64, Value)> = vec![];
    let mut known_hits: BTreeMap<String, u64> = BTreeMap::new();
    let mut harness_errors: Vec<String> = vec![];
    for (idx, v) in &agg.violations {
        if v["tags"].as_array().is_some_and(|t| t.iter().any(|x| x.as_str() == Some("harness"))) {
            // the machinery itself failed (a helper process could not be started, a generated grammar
            // was refused, ...): says nothing about the property; never reported as a violation
            harness_errors.push(format!("case {idx}: {}: {}", v["kind"].as_str().unwrap_or(""), v["what"].as_str().unwrap_or("").chars().take(300).collect::<String>()));
            continue;
        }
        if let Some(k) = matches_known(&known, v) {
            *known_hits.entry(k.id.clone()).or_insert(0) += 1;
            if printed_known.insert(k.id.clone()) {
                println!(
                    "KNOWN-FINDING: property={} {}: {} [first witness this run: {}]",
                    id,
                    k.id,
                    k.what,
                    v["what"].as_str().unwrap_or("")
                );
            }
        } else {
            real.push((*idx, v.clone()));
        }
    }

    // replay files for real violations (dedupe by kind+what prefix, at most 10 files)
    std::fs::create_dir_all(format!("{VERIF_DIR}/replays")).ok();
    let mut seen_sig: HashSet<String> = HashSet::new();
    let mut nfiles = 0;
    for (idx, v) in &real {
        let sig = format!("{}|{}", v["kind"].as_str().unwrap_or(""), idx);
        if !seen_sig.insert(sig.clone()) {
            continue;
        }
        if nfiles >= 10 {
            break;
        }
        nfiles += 1;
        let h = crate::rng::hash_str(&format!("{sig}|{seed}|{}", tier.name()));
        let path = format!("{VERIF_DIR}/replays/{id}-{:012x}.json", h & 0xffff_ffff_ffff);
        let body = json!({
            "property": id, "tier": tier.name(), "seed": seed, "case": idx,
            "kind": v["kind"], "tags": v["tags"], "what": v["what"], "detail": v["detail"],
        });
        std::fs::write(&path, serde_json::to_string_pretty(&body).unwrap()).ok();
        println!("VIOLATION property={} replay={}", id, path);
        println!("  what: {}", v["what"].as_str().unwrap_or(""));
    }

    // evidence
    let wall = t0.elapsed().as_secs_f64();
    let mut cov = Map::new();
    cov.insert("evaluations".into(), json!(agg.evals));
    cov.insert("distinct_nontrivial".into(), json!(agg.nontrivial.len()));
    cov.insert("rule".into(), json!(check.rule()));
    cov.insert("samples".into(), json!(agg.samples));
    cov.insert("cases_run".into(), json!(agg.cases));
    cov.insert("cases_planned".into(), json!(if replay_idx.is_some() { 1 } else { n }));
    cov.insert("counters".into(), json!(agg.counters));
    cov.insert("inconclusive".into(), json!(agg.inconclusive_n));
    cov.insert("inconclusive_samples".into(), json!(agg.inconclusive));
    cov.insert("known_finding_hits".into(), json!(known_hits));
    cov.insert("harness_errors".into(), json!(harness_errors.iter().take(10).collect::<Vec<_>>()));
    cov.insert("suspects".into(), json!(suspects.iter().map(|(i, w)| json!({"case": i, "why": w})).collect::<Vec<_>>()));
    for (k, v) in check.extra_coverage(tier, &agg.counters) {
        cov.insert(k, v);
    }
    if let Some(l) = leg_cov {
        cov.insert("sanitizer_leg".into(), l);
    }
    let ev = json!({
        "property_id": id,
        "tier": tier.name(),
        "seed": seed,
        "level": check.level(),
        "coverage": cov,
        "assumptions": check.assumptions(),
        "wall_s": wall,
        "violations": real.len(),
    });
    if replay_idx.is_none() {
        std::fs::create_dir_all(format!("{VERIF_DIR}/evidence")).ok();
        std::fs::write(
            format!("{VERIF_DIR}/evidence/{id}.json"),
            serde_json::to_string_pretty(&ev).unwrap(),
        )
        .expect("write evidence");
    }
    println!(
        "{} {}: cases={} evaluations={} distinct_nontrivial={} inconclusive={} violations={} known={} wall={:.1}s",
        id,
        tier.name(),
        agg.cases,
        agg.evals,
        agg.nontrivial.len(),
        agg.inconclusive_n,
        real.len(),
        known_hits.values().sum::<u64>(),
        wall
    );
    if !real.is_empty() {
        return 1;
    }
    if !harness_errors.is_empty() {
        println!("BROKEN-CHECK {id}: {} harness error(s), e.g. {}", harness_errors.len(), harness_errors[0]);
        return 2;
    }
    if replay_idx.is_none() {
        if (agg.nontrivial.len() as u64) < check.floor(tier) {
            println!(
                "BROKEN-CHECK {}: only {} distinct non-trivial cases (< floor {}): vacuous run, not evidence",
                id,
                agg.nontrivial.len(),
                check.floor(tier)
            );
            return 2;
        }
        for c in check.required_counters(tier) {
            if agg.counters.get(c).copied().unwrap_or(0) == 0 {
                println!("BROKEN-CHECK {id}: required counter '{c}' is zero: vacuous run, not evidence");
                return 2;
            }
        }
    }
    0
}

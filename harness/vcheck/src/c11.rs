//! C11 — a lexer definition is a faithful image of its `.l` source.
//! Print-then-parse: abstract spec -> text (several renderings) -> from_str / new_with_options
//! -> accessors, spans, and behaviour of the built rules against the intended regexes.

use crate::c09::{build_lexerdef, real_lex};
use crate::frame::*;
use crate::lx::*;
use crate::rng::{hash_str, Rng};
use lrlex::{DefaultLexerTypes, LRNonStreamingLexerDef, LexerDef, StartStateOperation};
use serde_json::json;

pub struct C11;
type LD = LRNonStreamingLexerDef<DefaultLexerTypes<u32>>;

fn debug_field(dbg: &str, field: &str) -> Option<String> {
    let k = format!("{field}: ");
    let i = dbg.find(&k)? + k.len();
    let rest = &dbg[i..];
    let end = rest.find([',', ' ', '}']).unwrap_or(rest.len());
    Some(rest[..end].to_string())
}

impl Check for C11 {
    fn id(&self) -> &'static str {
        "C11"
    }
    fn ncases(&self, tier: Tier) -> u64 {
        tier.sz(24000, 400000)
    }
    fn rule(&self) -> &'static str {
        "one abstract lex specification per case rendered 4 (quick) / 8 (thorough) ways (with/without %grmtools section, flags in header or through the builder, LF/CRLF, whole-line comments, gratuitous lex-style backslash escapes incl. before multi-byte characters, escaped leading '<' and blanks, all three skip-rule spellings, both quote styles, %s/%S/%start/%x/%X spellings); checked: rules in order with name / restricting states / target operation; declared start states with kind; every name_span and start-state name_span slices the user's text to the name; the built lexer behaves like the reference lexer compiled from the abstract regexes on 12 inputs (regex meaning incl. \\c rewriting, flags in force); mutated (broken) renderings must yield errors whose spans lie inside the user's text on the offending line. Non-trivial = rendering has a header or a rewritten escape or a state operator; distinct by rendering text."
    }
    fn assumptions(&self) -> Vec<&'static str> {
        vec!["exclusive/inclusive kind and state ids are read from the Debug rendering of StartState (no public accessor)", "regex meaning is checked behaviourally against the reference lexer, never by comparing regex text"]
    }
    fn floor(&self, tier: Tier) -> u64 {
        tier.sz(16000, 160000)
    }
    fn required_counters(&self, _t: Tier) -> Vec<&'static str> {
        vec!["renderings", "rules_compared", "name_spans_checked", "state_spans_checked", "escapes_rewritten", "renderings_with_header", "behaviour_inputs", "error_spans_checked", "flags_set_on_both_sides", "flags_set_in_the_section_only"]
    }
    fn run_case(&self, seed: u64, idx: u64, tier: Tier) -> CaseOut {
        let mut out = CaseOut::new();
        let mut rng = Rng::derive(seed, "C11", idx, 0);
        if idx % 40 == 0 {
            builder_vs_section(&mut rng, idx, &mut out);
        }
        let al = gen_alex(&mut rng);
        let ids: Vec<Option<u32>> = (0..al.rules.len()).map(|i| Some(i as u32)).collect();
        let rl = match RefLexer::new(&al, &mut rng, &ids) {
            Ok(rl) => rl,
            Err(why) => {
                // the intended regexes do not compile under the requested limits: the real build must fail too
                out.count("reference_regex_rejected", 1);
                for header in [true, false] {
                    let rd = render_alex(&al, &mut rng, &RenderOpts { header, crlf: false, comments: false, lexy_escapes: false });
                    out.evals += 1;
                    if let Ok(Ok(_)) = build_lexerdef(&al, &rd, !header) {
                        out.violate("limits-not-in-force", &[], format!("the specification builds although its regexes exceed the requested size/nest limits ({})", why.chars().take(160).collect::<String>()), json!({"spec": rd.text, "via_builder": !header, "flags": format!("{:?}", al.flags)}));
                    }
                }
                return out;
            }
        };
        for k in 0..tier.sz(4, 8) {
            let header = k % 2 == 0;
            let via_builder = !header || rng.chance(1, 4);
            let o = RenderOpts { header, crlf: rng.chance(1, 4), comments: true, lexy_escapes: rng.chance(2, 3) };
            let rd = render_alex(&al, &mut rng, &o);
            let src = &rd.text;
            out.count("renderings", 1);
            if header {
                out.count("renderings_with_header", 1);
            }
            out.count("escapes_rewritten", rd.escapes as u64);
            let detail = |x: String| json!({"spec": src, "via_builder": via_builder, "obs": x});
            // when the header carries the flags and we go through the builder, the builder's flags win: pass the same
            let ld: LD = match build_lexerdef(&al, &rd, via_builder) {
                Err(p) => {
                    out.violate("panic", &["lexerdef"], format!("building the lexer definition panicked: {p}"), detail(String::new()));
                    continue;
                }
                Ok(Err(e)) => {
                    let tags: Vec<&str> = if rd.escapes > 0 && al.rules.iter().any(|r| !r.states.is_empty()) { vec!["escape_in_rule_with_start_state_prefix"] } else { vec![] };
                    out.count("limit_flag_specs_rejected_unexpectedly", u64::from(al.flags.size_limit.is_some()));
                    out.violate("valid-spec-rejected", &tags, format!("a valid specification was rejected: {}", e.chars().take(300).collect::<String>()), detail(String::new()));
                    continue;
                }
                Ok(Ok(ld)) => ld,
            };
            out.evals += 1;
            if header || rd.escapes > 0 || al.rules.iter().any(|r| r.target.is_some()) {
                out.nontrivial(hash_str(src));
            }
            // start states
            let sts: Vec<String> = ld.iter_start_states().map(|s| format!("{s:?}")).collect();
            let st_objs: Vec<_> = ld.iter_start_states().collect();
            if st_objs.len() != al.states.len() {
                out.violate("start-state-count", &[], format!("{} start states, expected {}", st_objs.len(), al.states.len()), detail(format!("{sts:?}")));
            } else {
                for (i, s) in st_objs.iter().enumerate() {
                    let (name, excl) = &al.states[i];
                    if s.name() != name {
                        out.violate("start-state-name", &[], format!("start state #{i} is named {:?}, expected {:?}", s.name(), name), detail(String::new()));
                    }
                    if debug_field(&sts[i], "exclusive").as_deref() != Some(if *excl { "true" } else { "false" }) {
                        out.violate("start-state-kind", &[], format!("start state {name} has the wrong inclusive/exclusive kind: {}", sts[i]), detail(String::new()));
                    }
                    if let Some((a, b)) = rd.state_name_spans[i] {
                        out.count("state_spans_checked", 1);
                        let sp = s.name_span();
                        let ok = sp.end() <= src.len() && src.is_char_boundary(sp.start()) && src.is_char_boundary(sp.end()) && &src[sp.start()..sp.end()] == name.as_str();
                        if !ok {
                            let tags: Vec<&str> = if header && sp.end() + (a - sp.start()) == b && a > sp.start() { vec!["span_offset_by_header_length"] } else { vec![] };
                            out.violate("start-state-span", &tags, format!("name_span of start state {name} is {}..{} which does not slice the source to its name (printed at {a}..{b})", sp.start(), sp.end()), detail(String::new()));
                        }
                    }
                }
            }
            // rules
            let rules: Vec<_> = ld.iter_rules().collect();
            if rules.len() != al.rules.len() {
                out.violate("rule-count", &[], format!("{} rules, expected {}", rules.len(), al.rules.len()), detail(String::new()));
                continue;
            }
            for (i, r) in rules.iter().enumerate() {
                out.count("rules_compared", 1);
                let ar = &al.rules[i];
                if r.name() != ar.name.as_deref() {
                    out.violate("rule-name", &[], format!("rule #{i} has name {:?}, expected {:?}", r.name(), ar.name), detail(String::new()));
                }
                let mut want_states = ar.states.clone();
                let mut got_states = r.start_states().to_vec();
                want_states.sort();
                got_states.sort();
                if got_states != want_states {
                    out.violate("rule-start-states", &[], format!("rule #{i} is restricted to states {:?}, expected {:?}", got_states, want_states), detail(String::new()));
                }
                let want_t = ar.target.map(|(s, op)| (s, match op { Op::Push => StartStateOperation::Push, Op::Pop => StartStateOperation::Pop, Op::Replace => StartStateOperation::ReplaceStack }));
                if r.target_state() != want_t {
                    out.violate("rule-target-state", &[], format!("rule #{i} has target operation {:?}, expected {:?}", r.target_state(), want_t), detail(String::new()));
                }
                if let Some((a, b)) = rd.rule_name_spans[i] {
                    out.count("name_spans_checked", 1);
                    let sp = r.name_span();
                    let ok = sp.end() <= src.len() && src.is_char_boundary(sp.start()) && src.is_char_boundary(sp.end()) && Some(&src[sp.start()..sp.end()]) == ar.name.as_deref();
                    if !ok {
                        let mut tags: Vec<&str> = vec![];
                        if header {
                            tags.push("spec_has_grmtools_section");
                        }
                        if ar.target.is_some() {
                            tags.push("rule_has_target_state_operator");
                        }
                        out.violate("rule-name-span", &tags, format!("name_span of rule #{i} ({:?}) is {}..{} which does not slice the source to the name (printed at {a}..{b})", ar.name, sp.start(), sp.end()), detail(String::new()));
                    }
                }
            }
            // behaviour: regex meaning and flags in force
            for _ in 0..12 {
                let n = rng.range(1, 8);
                let s = gen_lex_input(&al, &mut rng, n);
                let mut stats = LexStats::default();
                let (want, werr) = rl.lex(&s, &mut stats);
                out.evals += 1;
                out.count("behaviour_inputs", 1);
                match real_lex(&ld, &s) {
                    Err(p) => out.violate("panic", &["lex"], format!("lexing panicked: {p}"), detail(s.clone())),
                    Ok((got, gerr, _)) => {
                        if got != want || gerr != werr {
                            let tags: Vec<&str> = if rd.escapes > 0 { vec!["rendering_has_lex_escapes"] } else { vec![] };
                            out.violate("regex-or-flags-meaning", &tags, format!("the built lexer does not behave like the written specification on input {s:?}: got {got:?} err {gerr:?}, expected {want:?} err {werr:?}"), detail(String::new()));
                        }
                    }
                }
            }
            // broken renderings: errors must point into the user's text, on the offending line
            if k == 0 {
                let lines: Vec<(usize, &str)> = {
                    let mut v = vec![];
                    let mut off = 0;
                    for l in src.split_inclusive('\n') {
                        v.push((off, l));
                        off += l.len();
                    }
                    v
                };
                // corrupt one rule line: remove the space before the name (MissingSpace) or unknown state
                let rule_lines: Vec<usize> = lines.iter().enumerate().filter(|(_, (_, l))| !l.starts_with('%') && !l.starts_with("//") && !l.trim().is_empty() && !l.starts_with('}') && !l.starts_with(' ')).map(|(i, _)| i).collect();
                let in_rules = lines.iter().position(|(_, l)| l.trim_end() == "%%");
                if let (Some(sep), false) = (in_rules, rule_lines.is_empty()) {
                    let cand: Vec<usize> = rule_lines.into_iter().filter(|i| *i > sep).collect();
                    if !cand.is_empty() {
                        let li = *rng.pick(&cand);
                        let (off, l) = lines[li];
                        let broken_line = format!("<NOSUCHSTATE>{l}");
                        let mut broken = String::new();
                        broken.push_str(&src[..off]);
                        broken.push_str(&broken_line);
                        broken.push_str(&src[off + l.len()..]);
                        let r = guarded(|| LD::from_str(&broken).map(|_| ()).map_err(|e| e.iter().map(|x| (format!("{x}"), cfgrammar::Spanned::spans(x).to_vec())).collect::<Vec<_>>()));
                        out.evals += 1;
                        match r {
                            Err(p) => out.violate("panic", &["broken-spec"], format!("parsing a broken specification panicked: {p}"), json!({"spec": broken})),
                            Ok(Ok(())) => {
                                // a rule that already had a state prefix keeps one: "<NOSUCHSTATE><A>re" — still must fail
                                out.violate("broken-spec-accepted", &[], "a rule restricted to an undeclared start state was accepted".into(), json!({"spec": broken}));
                            }
                            Ok(Err(errs)) => {
                                out.count("error_spans_checked", 1);
                                let lo = off;
                                let hi = off + broken_line.len();
                                for (msg, spans) in errs {
                                    for sp in spans {
                                        let inside = sp.start() >= lo && sp.end() <= hi && sp.end() <= broken.len();
                                        if !inside {
                                            let tags: Vec<&str> = if header { vec!["spec_has_grmtools_section"] } else { vec![] };
                                            out.violate("error-span", &tags, format!("error '{msg}' has span {}..{} but the offending line is at {lo}..{hi}", sp.start(), sp.end()), json!({"spec": broken}));
                                        }
                                    }
                                }
                            }
                        }
                    }
                }
            }
            if k == 0 && idx % 83 == 0 {
                out.sample = Some(json!({"spec": src, "via_builder": via_builder, "escapes": rd.escapes}));
            }
        }
        out
    }
}

/// "Flags given ... through the builder are the ones in force": the same boolean flags are set through
/// CTLexerBuilder's methods and, with the OPPOSITE values, in the specification's %grmtools section; the
/// documented rule is that the builder's value wins. The values in force are read from the generated
/// module (`lex_flags.<flag> = Some(<value>)`).
fn builder_vs_section(rng: &mut Rng, idx: u64, out: &mut CaseOut) {
    use lrlex::CTLexerBuilder;
    const FLAGS: [&str; 8] = ["case_insensitive", "dot_matches_new_line", "multi_line", "posix_escapes", "octal", "swap_greed", "ignore_whitespace", "unicode"];
    let mut chosen: Vec<(usize, bool)> = vec![];
    for i in 0..FLAGS.len() {
        if rng.chance(1, 2) {
            chosen.push((i, rng.chance(1, 2)));
        }
    }
    // some flags only in the section, some only on the builder, the chosen ones on both sides
    let mut section_only: Vec<(usize, bool)> = vec![];
    for i in 0..FLAGS.len() {
        if !chosen.iter().any(|(c, _)| *c == i) && rng.chance(1, 3) {
            section_only.push((i, rng.chance(1, 2)));
        }
    }
    let mut hdr: Vec<String> = vec![];
    for (i, v) in &chosen {
        hdr.push(format!("{}{}", if *v { "!" } else { "" }, FLAGS[*i])); // the opposite of the builder's value
    }
    for (i, v) in &section_only {
        hdr.push(format!("{}{}", if *v { "" } else { "!" }, FLAGS[*i]));
    }
    let spec = format!("{}%%\n[a-z]+ 'ID'\n[0-9]+ 'NUM'\n[ \\t\\n]+ ;\n", if hdr.is_empty() { String::new() } else { format!("%grmtools{{{}}}\n", hdr.join(", ")) });
    let dir = format!("{VERIF_DIR}/work/c11-{}-{idx}", std::process::id());
    std::fs::remove_dir_all(&dir).ok();
    if std::fs::create_dir_all(&dir).is_err() {
        return;
    }
    let lp = format!("{dir}/f.l");
    let lo = format!("{dir}/f.l.rs");
    std::fs::write(&lp, &spec).ok();
    let detail = || json!({"spec": spec, "builder_flags": chosen.iter().map(|(i, v)| json!([FLAGS[*i], v])).collect::<Vec<_>>()});
    let chosen2 = chosen.clone();
    let r = guarded(|| {
        let mut lb = CTLexerBuilder::<DefaultLexerTypes<u32>>::new().lexer_path(&lp).output_path(&lo);
        for (i, v) in &chosen2 {
            lb = match FLAGS[*i] {
                "case_insensitive" => lb.case_insensitive(*v),
                "dot_matches_new_line" => lb.dot_matches_new_line(*v),
                "multi_line" => lb.multi_line(*v),
                "posix_escapes" => lb.posix_escapes(*v),
                "octal" => lb.octal(*v),
                "swap_greed" => lb.swap_greed(*v),
                "ignore_whitespace" => lb.ignore_whitespace(*v),
                _ => lb.unicode(*v),
            };
        }
        lb.build().map(|_| ()).map_err(|e| e.to_string())
    });
    let module = std::fs::read_to_string(&lo);
    std::fs::remove_dir_all(&dir).ok();
    out.evals += 1;
    match r {
        Err(p) => out.violate("panic", &["ct-lexer-builder"], format!("CTLexerBuilder::build panicked: {p}"), detail()),
        Ok(Err(e)) => out.violate("valid-spec-rejected", &["ct-lexer-builder"], format!("CTLexerBuilder refused a valid specification: {}", e.lines().find(|l| !l.trim().is_empty()).unwrap_or("")), detail()),
        Ok(Ok(())) => {
            let Ok(module) = module else {
                out.violate("generated-file-missing", &["ct-lexer-builder"], "CTLexerBuilder::build succeeded but wrote no module".into(), detail());
                return;
            };
            let flat: String = module.split_whitespace().collect::<Vec<_>>().join("");
            out.count("builder_vs_section_builds", 1);
            let value_of = |name: &str| -> Option<bool> {
                let key = format!("lex_flags.{name}=::std::option::Option::");
                let at = flat.find(&key)? + key.len();
                if flat[at..].starts_with("Some(true)") {
                    Some(true)
                } else if flat[at..].starts_with("Some(false)") {
                    Some(false)
                } else {
                    None
                }
            };
            for (i, v) in &chosen {
                out.count("flags_set_on_both_sides", 1);
                if value_of(FLAGS[*i]) != Some(*v) {
                    out.violate("flag-not-in-force", &["builder-vs-section"], format!("{} was set to {v} through the builder (and to {} in the %grmtools section); the generated lexer has {:?}", FLAGS[*i], !v, value_of(FLAGS[*i])), detail());
                }
            }
            for (i, v) in &section_only {
                out.count("flags_set_in_the_section_only", 1);
                if value_of(FLAGS[*i]) != Some(*v) {
                    out.violate("flag-not-in-force", &["section-only"], format!("{} = {v} in the %grmtools section only; the generated lexer has {:?}", FLAGS[*i], value_of(FLAGS[*i])), detail());
                }
            }
        }
    }
}

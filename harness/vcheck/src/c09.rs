//! C09 — the lexer does longest match, earliest rule on ties, start states; tiles the input;
//! syncing ids reports exactly the names missing on either side.

use crate::frame::*;
use crate::lx::*;
use crate::rng::{hash_str, Rng};
use lrlex::{DefaultLexerTypes, LRNonStreamingLexerDef, LexerDef};
use lrpar::{LexError, Lexeme, Lexer};
use serde_json::json;
use std::collections::{HashMap, HashSet};

pub struct C09;

type LD = LRNonStreamingLexerDef<DefaultLexerTypes<u32>>;

pub fn build_lexerdef(al: &ALex, rd: &Rendered, via_builder: bool) -> Result<Result<LD, String>, String> {
    guarded(|| {
        if via_builder {
            LD::new_with_options(&rd.text, al.flags.to_lexflags()).map_err(|e| format!("{e:?}"))
        } else {
            LD::from_str(&rd.text).map_err(|e| format!("{e:?}"))
        }
    })
}

/// lex with the real lexer: (lexemes, error offset)
pub fn real_lex(ld: &LD, s: &str) -> Result<(Vec<(u32, usize, usize)>, Option<usize>, Vec<String>), String> {
    guarded(|| {
        let lexer = ld.lexer(s);
        let mut out = vec![];
        let mut err = None;
        let mut problems = vec![];
        let mut after_err = 0;
        for r in lexer.iter() {
            match r {
                Ok(l) => {
                    if err.is_some() {
                        after_err += 1;
                    }
                    out.push((l.tok_id(), l.span().start(), l.span().len()));
                }
                Err(e) => {
                    if err.is_some() {
                        problems.push("more than one lexing error".to_string());
                    }
                    err = Some(e.span().start());
                    if e.span().len() != 0 {
                        problems.push(format!("lex error span {}..{} is not zero-length", e.span().start(), e.span().end()));
                    }
                }
            }
        }
        if after_err > 0 {
            problems.push("lexemes are reported after the lexing error".to_string());
        }
        (out, err, problems)
    })
}

impl Check for C09 {
    fn id(&self) -> &'static str {
        "C09"
    }
    fn ncases(&self, tier: Tier) -> u64 {
        tier.sz(40000, 600000)
    }
    fn rule(&self) -> &'static str {
        "one generated lex specification per case (1-9 rules from a regex AST generator incl. multi-byte literals and classes, keyword-vs-identifier overlaps in both orders, skip rules, 0-3 inclusive/exclusive start states with push/pop/replace operations, random boolean flags given via %grmtools header or builder) x 30/60 inputs assembled from samples of the rules' own regexes plus noise; the real lexeme/error sequence is compared with a reference lexer (independently compiled \\A(?:re) per rule from the AST's canonical rendering; longest non-empty match, earliest rule on ties; plain Vec state stack) and checked for generic invariants (non-empty, increasing, non-overlapping, single trailing error); set_rule_ids(_spanned) results compared with independently computed set differences and the re-lexed ids. Non-trivial = input on which a tie or a state-stack operation occurred; distinct by (spec, input)."
    }
    fn assumptions(&self) -> Vec<&'static str> {
        vec![
            "the regex crate is trusted (also used by grmtools); the reference compiles the intended regex from the AST, not the text grmtools parsed",
            "assertions ($) are evaluated on the remaining input exactly as the documented \\A(?:re) anchoring does",
        ]
    }
    fn floor(&self, tier: Tier) -> u64 {
        tier.sz(30000, 300000)
    }
    fn required_counters(&self, _t: Tier) -> Vec<&'static str> {
        vec!["inputs_compared", "ties", "competing_lengths", "pushes", "pops", "replaces", "lex_errors_compared", "id_syncs_checked", "skipped_matches"]
    }
    fn run_case(&self, seed: u64, idx: u64, tier: Tier) -> CaseOut {
        let mut out = CaseOut::new();
        let mut rng = Rng::derive(seed, "C09", idx, 0);
        let al = gen_alex(&mut rng);
        let via_builder = rng.chance(1, 2);
        let rd = render_alex(&al, &mut rng, &RenderOpts { header: !via_builder, crlf: false, comments: true, lexy_escapes: false });
        let detail = |x: String| json!({"spec": rd.text, "via_builder": via_builder, "obs": x});
        let mut ld = match build_lexerdef(&al, &rd, via_builder) {
            Err(p) => {
                out.violate("panic", &["lexerdef"], format!("building the lexer definition panicked: {p}"), detail(String::new()));
                return out;
            }
            Ok(Err(e)) => {
                // a generated spec should be valid; regex compile errors (nullable etc.) are the generator's business
                out.count("spec_rejected", 1);
                if idx % 50 == 0 {
                    out.sample = Some(json!({"rejected_spec": rd.text, "error": e.chars().take(200).collect::<String>()}));
                }
                return out;
            }
            Ok(Ok(ld)) => ld,
        };
        // default ids: rule index
        let ids: Vec<Option<u32>> = (0..al.rules.len()).map(|i| Some(i as u32)).collect();
        let rl = match RefLexer::new(&al, &mut rng, &ids) {
            Ok(r) => r,
            Err(e) => {
                out.violate("reference-broken", &["harness"], e, detail(String::new()));
                return out;
            }
        };
        let sh = hash_str(&rd.text);
        let ninputs = tier.sz(30, 60);
        let mut inputs = vec![];
        for _ in 0..ninputs {
            let n = rng.range(1, 12);
            inputs.push(gen_lex_input(&al, &mut rng, n));
        }
        let compare = |out: &mut CaseOut, ld: &LD, rl: &RefLexer, s: &str, phase: &str| {
            let mut stats = LexStats::default();
            let (want, werr) = rl.lex(s, &mut stats);
            out.evals += 1;
            out.count("inputs_compared", 1);
            out.count("positions", stats.positions);
            out.count("ties", stats.ties);
            out.count("competing_lengths", stats.competing_lengths);
            out.count("pushes", stats.pushes);
            out.count("pops", stats.pops);
            out.count("replaces", stats.replaces);
            out.count("skipped_matches", stats.skipped);
            out.max("stack_depth", stats.max_depth);
            if stats.ties > 0 || stats.pushes + stats.pops + stats.replaces > 0 {
                out.nontrivial(sh ^ hash_str(s));
            }
            let d = |x: String| json!({"spec": rd.text, "via_builder": via_builder, "input": s, "phase": phase, "obs": x});
            match real_lex(ld, s) {
                Err(p) => out.violate("panic", &["lex"], format!("lexing panicked: {p}"), d(String::new())),
                Ok((got, gerr, problems)) => {
                    for p in problems {
                        out.violate("lexeme-stream-malformed", &[], p, d(String::new()));
                    }
                    // generic invariants
                    let mut last_end = 0;
                    for (_, st, len) in &got {
                        if *len == 0 {
                            out.violate("empty-lexeme", &[], format!("zero-length lexeme at {st}"), d(String::new()));
                        }
                        if *st < last_end {
                            out.violate("overlapping-lexemes", &[], format!("lexeme at {st} overlaps the previous one ending at {last_end}"), d(String::new()));
                        }
                        last_end = st + len;
                    }
                    if werr.is_some() {
                        out.count("lex_errors_compared", 1);
                    }
                    if got != want || gerr != werr {
                        out.violate("differs-from-reference-lexer", &[], format!("lexemes/error differ from the reference lexer: got {:?} err {:?}, expected {:?} err {:?}", got, gerr, want, werr), d(String::new()));
                    }
                }
            }
        };
        for s in &inputs {
            compare(&mut out, &ld, &rl, s, "default-ids");
        }
        // id syncing: a parser-side map with some names missing on either side
        let lexer_names: Vec<String> = al.rules.iter().filter_map(|r| r.name.clone()).collect();
        let mut map_owned: Vec<(String, u32)> = vec![];
        let mut next_id = 100u32;
        for n in &lexer_names {
            if !rng.chance(1, 4) {
                map_owned.push((n.clone(), next_id));
                next_id += rng.range(1, 3) as u32;
            }
        }
        for k in 0..rng.below(3) {
            map_owned.push((format!("ONLY_IN_PARSER{k}"), next_id));
            next_id += 1;
        }
        let want_missing_from_parser: HashSet<String> = lexer_names.iter().filter(|n| !map_owned.iter().any(|(m, _)| m == *n)).cloned().collect();
        let want_missing_from_lexer: HashSet<String> = map_owned.iter().map(|(n, _)| n.clone()).filter(|n| !lexer_names.contains(n)).collect();
        {
            let map: HashMap<&str, u32> = map_owned.iter().map(|(n, i)| (n.as_str(), *i)).collect();
            let spanned = rng.chance(1, 2);
            let res = guarded(|| {
                if spanned {
                    let (a, b2) = ld.set_rule_ids_spanned(&map);
                    (a.map(|s| s.into_iter().map(String::from).collect::<HashSet<String>>()), b2.map(|s| s.into_iter().map(|(n, _)| n.to_string()).collect::<HashSet<String>>()))
                } else {
                    let (a, b2) = ld.set_rule_ids(&map);
                    (a.map(|s| s.into_iter().map(String::from).collect::<HashSet<String>>()), b2.map(|s| s.into_iter().map(String::from).collect::<HashSet<String>>()))
                }
            });
            out.evals += 1;
            out.count("id_syncs_checked", 1);
            match res {
                Err(p) => out.violate("panic", &["set_rule_ids"], format!("set_rule_ids panicked: {p}"), detail(String::new())),
                Ok((a, b2)) => {
                    // order as pinned by the repo's own test and used by every caller:
                    // (referenced by the parser but missing from the lexer, defined in the lexer but missing from the parser)
                    // (the doc comment on the trait method states the opposite order; the property does not fix one)
                    let a = a.unwrap_or_default();
                    let b2 = b2.unwrap_or_default();
                    if a != want_missing_from_lexer || b2 != want_missing_from_parser {
                        out.violate("id-sync-report", &[], format!("set_rule_ids{} returned ({:?}, {:?}); expected (missing from lexer {:?}, missing from parser {:?})", if spanned { "_spanned" } else { "" }, a, b2, want_missing_from_lexer, want_missing_from_parser), detail(format!("map: {map_owned:?}")));
                    }
                }
            }
        }
        // re-lex with the mapped ids (rules whose name is not in the map have no id: the reference errs there too)
        let ids2: Vec<Option<u32>> = al.rules.iter().map(|r| r.name.as_ref().and_then(|n| map_owned.iter().find(|(m, _)| m == n).map(|(_, i)| *i))).collect();
        if let Ok(rl2) = RefLexer::new(&al, &mut rng, &ids2) {
            for s in inputs.iter().take(10) {
                compare(&mut out, &ld, &rl2, s, "after-set_rule_ids");
            }
        }
        if idx % 97 == 0 {
            out.sample = Some(json!({"spec": rd.text, "via_builder": via_builder, "inputs": inputs.iter().take(3).collect::<Vec<_>>()}));
        }
        out
    }
}

#!/bin/bash
# usage: tools/runall.sh <tier> <seed...>   — runs every check, prints one line per check
TIER="$1"; shift
for s in "$@"; do
  for i in $(seq -w 1 20); do
    c=C$i
    t0=$(date +%s)
    out=$(VERIF_SEED=$s ./check $c $TIER 2>&1); rc=$?
    t1=$(date +%s)
    echo "seed=$s $c rc=$rc $((t1-t0))s :: $(echo "$out" | grep -v '^KNOWN-FINDING\|^  what' | tail -1) :: viol_lines=$(echo "$out" | grep -c '^VIOLATION')"
    if [ $rc -ne 0 ]; then echo "$out" | grep -A1 '^VIOLATION\|BROKEN' | head -8; fi
  done
done

#!/usr/bin/env python3
"""Run each confirmed seeded mutant (in /verif/seeded/*/patch.diff) against the checks of its group
(quick tier, seed 1) using tools/trymutant.sh; record which checks report a VIOLATION.
Must not run concurrently with anything else that builds from /repo's working tree."""
import json, os, re, subprocess, glob, sys
GROUPS = {
 "table": ["C01","C02","C03","C04","C16"], "recovery": ["C05","C06","C07","C08"], "lexer": ["C09","C11","C13"],
 "grammar": ["C10","C12","C14","C17","C20"], "build": ["C13","C15","C18"], "lines": ["C19","C12"],
}
OF = {"C01":"table","C02":"table","C03":"table","C04":"table","C16":"table","C05":"recovery","C06":"recovery","C07":"recovery","C08":"recovery",
      "C09":"lexer","C11":"lexer","C13":"build","C10":"grammar","C12":"grammar","C14":"grammar","C17":"grammar","C20":"grammar","C15":"build","C18":"build","C19":"lines"}
EXTRA = {"C03-A":["C10"], "C10-B":["C03"], "C15-A":["C02","C16","C01"], "C15-B":["C10","C14"], "C12-B":["C11","C09"], "C13-B":["C11","C09"], "C11-B":["C13"], "C14-A":["C15"], "C14-B":["C05","C06"], "C19-B":[],
         "C03-C":["C18"], "C15-D":["C18"], "C14-D":["C13"], "C13-C":["C14"], "C13-D":["C09","C11"], "C16-C":["C01","C04"], "C02-C":["C04","C01"], "C02-D":["C01","C04"],
         "C01-C":["C02","C16"], "C01-D":["C03"], "C10-D":["C12"], "C12-C":["C10"], "C20-C":["C16","C14"], "C04-C":["C17","C01"], "C04-D":["C02","C01"],
         "C04-E":["C01","C02"], "C04-F":["C07"], "C06-E":["C16"], "C12-F":["C10"], "C15-E":["C20","C02"], "C16-E":["C02","C01"], "C17-F":["C01","C04"], "C18-F":["C15"], "C19-F":["C04"], "C20-F":["C10"], "C03-E":["C16","C01"], "C13-E":["C08","C05"], "C05-F":["C08"], "C09-E":["C11"], "C14-F":["C10"], "C02-E":["C01","C15"], "C02-F":["C01"],
         "C03-G":["C18"], "C13-H":["C18"], "C18-G":["C03"], "C01-H":["C07","C04"], "C01-G":["C03","C10"], "C06-H":["C05"], "C08-G":["C05","C06"], "C10-G":["C12"], "C16-G":["C01","C04","C02"], "C02-G":["C04","C01"], "C02-H":["C04","C01","C17"], "C09-H":["C11"], "C11-G":["C09"], "C15-G":["C18"], "C15-H":["C10"], "C19-G":["C09"], "C14-G":["C13"], "C05-G":["C06"], "C07-G":["C05"], "C04-H":["C02","C01"], "C06-H":["C08"], "C08-G":["C06"],
         "C13-J":["C18"], "C04-J":["C08","C07"], "C04-I":["C01"], "C01-I":["C04"], "C13-I":["C09","C11"], "C14-I":["C13"], "C07-J":["C05","C06"], "C07-I":["C05"], "C16-J":["C02","C15"], "C15-I":["C02"], "C09-J":["C11","C13"], "C08-I":["C05"], "C03-I":["C10"], "C10-I":["C12"], "C12-I":["C10","C11"], "C12-J":["C10","C11"], "C05-I":["C06","C07"], "C05-J":["C06","C08"], "C02-I":["C01","C04"], "C02-J":["C01","C04"]}
only = sys.argv[1:]
res = {}
for d in sorted(glob.glob("/verif/seeded/C*-[A-K]")):
    sid = os.path.basename(d)
    if only and sid not in only: continue
    if os.path.exists("/tmp/seed_matrix.json") and sid in json.load(open("/tmp/seed_matrix.json")): continue
    prop = sid[:3]
    checks = list(dict.fromkeys([prop] + EXTRA.get(sid, [])))
    p = subprocess.run(["/verif/tools/trymutant.sh", f"{d}/patch.diff"] + checks, stdout=subprocess.PIPE, stderr=subprocess.STDOUT, text=True)
    caught, silent, first = [], [], {}
    cur = None
    for l in p.stdout.splitlines():
        m = re.match(r"== (C\d\d) rc=(\d+): (\d+) VIOLATION", l)
        if m:
            cur = m.group(1)
            (caught if m.group(2) == "1" else silent).append(cur + ("" if m.group(2) in "01" else f"(rc={m.group(2)})"))
        elif l.strip().startswith("what:") and cur and cur not in first:
            first[cur] = l.strip()[6:200]
    res[sid] = {"caught_by": caught, "silent": silent, "first_report": first}
    print(sid, "caught by", caught, "| silent:", silent, flush=True)
    meta = json.load(open(f"{d}/meta.json"))
    meta["checks_run_quick_seed1"] = checks
    meta["caught_by"] = caught
    meta["not_caught_by"] = silent
    meta["first_report"] = first
    json.dump(meta, open(f"{d}/meta.json", "w"), indent=1)
    allres = json.load(open("/tmp/seed_matrix.json")) if os.path.exists("/tmp/seed_matrix.json") else {}
    allres[sid] = res[sid]
    json.dump(allres, open("/tmp/seed_matrix.json", "w"), indent=1)

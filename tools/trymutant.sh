#!/bin/bash
# usage: tools/trymutant.sh <patch.diff> <Cxx> [Cyy ...]   (tier via TIER=quick|thorough)
# Applies the patch to /repo's working tree, runs the named checks, and always reverts.
P="$1"; shift
cd /repo || exit 2
if ! git diff --quiet; then echo "/repo has uncommitted changes; refusing"; exit 2; fi
if ! git apply --check "$P" 2>/dev/null; then
  if git apply --3way "$P" 2>/dev/null && ! git diff --name-only --diff-filter=U | grep -q .; then echo "(applied with 3-way merge)"; git reset -q; else echo "PATCH DOES NOT APPLY: $P"; git reset -q --hard HEAD; exit 3; fi
else
  git apply "$P"
fi
trap 'cd /repo && git reset -q --hard HEAD' EXIT
cd /verif
for c in "$@"; do
  out=$(./check "$c" "${TIER:-quick}" 2>&1); rc=$?
  echo "== $c rc=$rc: $(echo "$out" | grep -c '^VIOLATION') VIOLATION lines; $(echo "$out" | tail -1)"
  echo "$out" | grep -A1 '^VIOLATION' | grep 'what:' | head -3
done

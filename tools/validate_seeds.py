#!/usr/bin/env python3
"""Validate the sub-agents' seeded mutants against the CURRENT /repo HEAD in a scratch worktree:
patch applies, the unedited test suite still passes with it, the demonstration fails with it and
passes without it. Writes /verif/seeded/<Cxx>-<A|B>/{patch.diff,demo*,notes.md,meta.json}."""
import json, os, re, shutil, subprocess, sys, glob
WT = os.environ.get("VSEED_WT", "/tmp/vseed_wt")
def sh(cmd, cwd=WT, timeout=1800):
    p = subprocess.run(cmd, shell=True, cwd=cwd, stdout=subprocess.PIPE, stderr=subprocess.STDOUT, text=True, timeout=timeout)
    return p.returncode, p.stdout
def suite():
    rc, out = sh("cargo test --workspace --no-fail-fast --offline 2>&1")
    passed = sum(int(m.group(1)) for m in re.finditer(r"test result: \w+\. (\d+) passed", out))
    failed = sum(int(m.group(1)) for m in re.finditer(r"(\d+) failed;", out))
    return rc, passed, failed, out
def main():
    only = sys.argv[1:]
    if not os.path.isdir(WT):
        subprocess.run(f"git -C /repo worktree add -q --detach {WT} HEAD", shell=True, check=True)
    else:
        sh("git checkout -q --detach && git reset -q --hard && git clean -fdq -e target")
        subprocess.run(f"git -C {WT} checkout -q --detach $(git -C /repo rev-parse HEAD)", shell=True)
    head = subprocess.run("git -C /repo rev-parse --short HEAD", shell=True, stdout=subprocess.PIPE, text=True).stdout.strip()
    results = {}
    # round 1 layout: /tmp/seed/Cxx/_out/{A,B}.patch.diff ; round 2 layout: /tmp/seed2/out/Cxx-{X,Y}/patch.diff
    cands = []
    for d in sorted(glob.glob("/tmp/seed/C??/_out")):
        for X in ["A", "B"]:
            cands.append((d.split("/")[3], X, d, f"{d}/{X}.patch.diff", f"{X}."))
    for d in sorted(glob.glob("/tmp/seed2/out/C??-?")):
        prop, x = os.path.basename(d).split("-")
        cands.append((prop, {"X": "C", "Y": "D"}.get(x, x), d, f"{d}/patch.diff", ""))
    for d in sorted(glob.glob("/tmp/seed3/out/C??-?")):
        prop, x = os.path.basename(d).split("-")
        cands.append((prop, {"X": "E", "Y": "F"}.get(x, "G"), d, f"{d}/patch.diff", ""))
    for d in sorted(glob.glob("/tmp/seed4/out/C??-?")):
        prop, x = os.path.basename(d).split("-")
        cands.append((prop, {"X": "G", "Y": "H"}.get(x, "I"), d, f"{d}/patch.diff", ""))
    for d in sorted(glob.glob("/tmp/seed5/out/C??-?")):
        prop, x = os.path.basename(d).split("-")
        cands.append((prop, {"X": "I", "Y": "J"}.get(x, "K"), d, f"{d}/patch.diff", ""))
    for prop, X, d, patch, pre in cands:
        if True:
            sid = f"{prop}-{X}"
            if only and sid not in only and prop not in only:
                continue
            if not os.path.exists(patch):
                continue
            sh("git reset -q --hard && git clean -fdq -e target")
            meta = {"id": sid, "property": prop, "validated_against_repo_head": head, "source": "independent sub-agent given only the property text and a scratch worktree"}
            rc, out = sh(f"git apply --check {patch} 2>&1")
            if rc != 0:
                rc2, out2 = sh(f"git apply --3way {patch} 2>&1")
                conflicted = sh("git diff --name-only --diff-filter=U")[1].strip()
                if rc2 != 0 or conflicted:
                    meta["status"] = "obsolete: patch no longer applies (the mutated code was rewritten by a fix: commit)"
                    meta["apply_output"] = (out + out2)[:500]
                    results[sid] = meta
                    sh("git reset -q --hard")
                    print(sid, meta["status"], flush=True)
                    continue
                sh("git reset -q")
                meta["applied"] = "3-way merge"
            else:
                sh(f"git apply {patch}")
                meta["applied"] = "clean"
            mutated_diff = sh("git diff")[1]
            rc, passed, failed, out = suite()
            meta["suite_with_mutant"] = {"passed": passed, "failed": failed}
            # demo
            demos = sorted(set(glob.glob(f"{d}/{pre}demo*.rs") + glob.glob(f"{d}/{pre}*demo*.rs")))
            demo = demos[0] if demos else None
            demo_res = None
            if demo:
                txt = open(demo).read()
                m = re.search(r"((?:nimbleparse|lrlex|lrpar|lrtable|cfgrammar)/(?:cttests/)?tests/[A-Za-z0-9_]+\.rs)", txt)
                c = re.search(r"cargo test ([^\n]*)", txt)
                extra = []
                for mm in re.finditer(r"cp\s+_out/(\S+)\s+(\S+)", txt):
                    extra.append((mm.group(1), mm.group(2)))
                if m and c:
                    dest = m.group(1)
                    args = c.group(1).strip()
                    args = re.sub(r"\s*(#|//|\(|->).*$", "", args)
                    if "--offline" not in args:
                        args += " --offline"
                    def place():
                        os.makedirs(os.path.dirname(f"{WT}/{dest}"), exist_ok=True)
                        shutil.copy(demo, f"{WT}/{dest}")
                        for src, dst in extra:
                            if os.path.exists(f"{d}/{src}") and not dst.endswith(dest.split('/')[-1]):
                                os.makedirs(os.path.dirname(f"{WT}/{dst}"), exist_ok=True)
                                shutil.copy(f"{d}/{src}", f"{WT}/{dst}")
                    place()
                    rc_m, out_m = sh(f"cargo test {args} 2>&1")
                    sh("git checkout -q -- .")  # revert the mutant, keep the (untracked) demo
                    place()
                    rc_c, out_c = sh(f"cargo test {args} 2>&1")
                    demo_res = {"dest": dest, "command": f"cargo test {args}", "with_mutant_exit": rc_m, "without_mutant_exit": rc_c,
                                "with_mutant_tail": out_m[-400:], "without_mutant_tail": out_c[-300:]}
                    sh("git reset -q --hard && git clean -fdq -e target")
            meta["demo"] = demo_res
            ok = failed == 0 and passed >= 293 and demo_res and demo_res["with_mutant_exit"] != 0 and demo_res["without_mutant_exit"] == 0
            meta["status"] = "confirmed" if ok else "not-confirmed"
            results[sid] = meta
            print(sid, meta["status"], meta.get("suite_with_mutant"), demo_res and (demo_res["with_mutant_exit"], demo_res["without_mutant_exit"]), flush=True)
            if ok:
                outd = f"/verif/seeded/{sid}"
                os.makedirs(outd, exist_ok=True)
                open(f"{outd}/patch.diff", "w").write(mutated_diff)
                for f in glob.glob(f"{d}/{pre}*demo*"):
                    if os.path.isdir(f):
                        shutil.copytree(f, f"{outd}/{os.path.basename(f)}", dirs_exist_ok=True)
                    else:
                        shutil.copy(f, f"{outd}/{os.path.basename(f)}")
                if os.path.exists(f"{d}/{pre}notes.md"):
                    shutil.copy(f"{d}/{pre}notes.md", f"{outd}/notes.md")
                json.dump(meta, open(f"{outd}/meta.json", "w"), indent=1)
    json.dump(results, open(os.environ.get("VSEED_RESULTS", "/tmp/vseed_results.json"), "w"), indent=1)
main()

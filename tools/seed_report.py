#!/usr/bin/env python3
"""Fill meta.json 'needs' fields, write /verif/seeded/README.md and print the DESIGN.md table."""
import json, glob, os
exec(open('/verif/tools/seed_needs.py').read()) if os.path.exists('/verif/tools/seed_needs.py') else None
results = json.load(open('/tmp/vseed_results.json')) if os.path.exists('/tmp/vseed_results.json') else {}
rows = []
for sid in sorted(NEEDS):
    d = f"/verif/seeded/{sid}"
    if os.path.isdir(d) and os.path.exists(f"{d}/meta.json"):
        m = json.load(open(f"{d}/meta.json"))
        m["breaks_property"] = sid[:3]
        m["needs_to_manifest"] = NEEDS[sid]
        m["what_was_run"] = "tools/validate_seeds.py in a scratch worktree of /repo HEAD: git apply; cargo test --workspace --no-fail-fast --offline (must stay 293 passed / 0 failed); demonstration placed as its header says, run with the change (must fail) and after reverting it (must pass). Then tools/seed_matrix.py: tools/trymutant.sh applies the patch to /repo's working tree, runs the listed checks (quick tier, seed 1) and reverts."
        json.dump(m, open(f"{d}/meta.json", "w"), indent=1)
        rows.append((sid, "kept", ", ".join(m.get("caught_by", [])) or "-", ", ".join(m.get("not_caught_by", [])) or "-", NEEDS[sid]))
    else:
        st = results.get(sid, {}).get("status", "not kept")
        rows.append((sid, "not kept", "-", "-", NEEDS[sid] + " [" + st + "]"))
with open("/verif/seeded/README.md", "w") as f:
    f.write("# Seeded changes\n\nEach directory holds one change produced by an independent sub-agent (property text + scratch worktree only), re-validated against the current /repo HEAD: `patch.diff`, the demonstration (`*.demo*`), the agent's `notes.md` and `meta.json` (property, what it needs to manifest, what was run, which checks report it).\n\nApply with `git -C /repo apply /verif/seeded/<id>/patch.diff`, run checks, undo with `git -C /repo checkout -- .` (or use `tools/trymutant.sh <patch> <Cxx>...`).\n\n| id | status | reported by (quick, seed 1) | run but silent | needs |\n|---|---|---|---|---|\n")
    for r in rows:
        f.write("| " + " | ".join(r) + " |\n")
print("| id | status | reported by | silent | needs |\n|---|---|---|---|---|")
for r in rows:
    print("| " + " | ".join(r) + " |")
